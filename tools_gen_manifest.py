#!/usr/bin/env python3
"""Regenerates MANIFEST.json from the table below (kept in one place so the manifest stays valid)."""
import json, os
HERE = os.path.dirname(os.path.abspath(__file__))
titles = {json.loads(l)['id']: json.loads(l)['title'] for l in open(os.path.join(HERE, 'properties.jsonl'))}

TECH_A = 'bounded symbolic execution of the real MIR (nightly -Zunpretty=mir of the working tree) -> SMT-LIB Int -> cvc5/z3 portfolio; UNSAT of the negated property; SAT models replayed on the native build'
TECH_B = 'Kani 0.68 / CBMC 6.11 proof harnesses over kani::any() inputs compiled into a scratch overlay of the working tree; unwinding assertions on; counterexamples decoded by concrete playback and replayed natively'
NOTE_A = 'Trusted: rustc MIR of the pinned nightly, the MIR->SMT encoder (validated on every run against native dev+release builds), cvc5/z3, the listed models of core integer methods.'
NOTE_B = 'Trusted: Kani/CBMC model of the compiled code (dev profile), the stubs listed in the evidence file (each with the query/harness that discharges its contract).'
CLAIMED = {
    'C01': dict(engine='A', technique=TECH_A, ref='DESIGN.md section 4, C01', note=NOTE_A,
                text='All 2^64 timestamps x 2^32 nanosecond values: from_timespec (month loop unrolled 12x, unwinding obligation discharged), week_day, year_day and the range gate are decided against the defining relation "fields valid and timegm(fields) = t"; every overflow/cast/index site is an obligation.'),
    'C02': dict(engine='AB', technique=TECH_A + '; ' + TECH_B + ' for derive(Ord)', ref='DESIGN.md section 4, C02', note=NOTE_A + ' Meta-step: induction over the year from the solver-checked recurrences.',
                text='days_since_unix_epoch is pinned to the true day count by recurrences (epoch, year step, month step, day step, leap rule) each decided for every i32 year; acceptance <=> real date, error kinds, strict monotonicity over two fully symbolic tuples, second 60; derive(Ord) of UtcDateTime is the lexicographic calendar order (Kani, two arbitrary values). No bound beyond the types.'),
    'C04': dict(engine='A', technique=TECH_A + '; compositional (callee contracts discharged by separate queries)', ref='DESIGN.md section 4, C04', note=NOTE_A + ' Assume-guarantee: calendar kernel summarised by uninterpreted functions whose axioms are discharged on the real MIR in the same run.',
                text='Three layers, all i32 years and all instants: rule days equal the notation (Jn, n, Mm.w.d with solver-chosen witness), contracts of the calendar kernel, and the real 12-leaf decision tree with the real rule-day arithmetic for all 9 notation pairs. One known finding (F2) is keyed by role and reported as KNOWN-FINDING.'),
    'C11': dict(engine='A', technique=TECH_A + '; calendar abstraction with discharged contracts, case split on months', ref='DESIGN.md section 4, C11', note=NOTE_A,
                text='For all 9 notation pairs: windows and error kinds; soundness (no accepted rule flips any of the three order relations between two symbolic years, all i32 years); completeness (refused as inconsistent => flips among the concrete witness years 2001..2029); unreachable!() and all arithmetic obligations.'),
    'C12': dict(engine='B', technique=TECH_B, ref='DESIGN.md section 4, C12', note=NOTE_B,
                text='Every leap table of <= 3 records accepted by the real constructor x every i64 instant/count: both conversions against a declarative "correction in force" specification, monotonicity, round trip, Galois connection with transition counts, public lookup switch instant; the leap-table binary search for every length 0..64.'),
    'C03': dict(engine='B', technique=TECH_B, ref='DESIGN.md section 4, C03', note=NOTE_B,
                text='The binary-search helper and the lookup for every table length 0..64 (fixed increasing times, symbolic key); every table of <= 6 (thorough 8, optionally 12) transitions with symbolic contents accepted by the real constructor, 1..3 types, 3 distinguishable types, rule none/Fixed, with and without <= 3 leap records, every i64 instant: the binary-search lookup returns the reference scan\'s type by pointer identity; DateTime::from_timespec = lookup + fields of t+offset (S_pack).'),
    'C05': dict(engine='B', technique=TECH_B + '; civil time abstracted to its second count (contracts C01/C02)', ref='DESIGN.md section 4, C05/C06', note=NOTE_B,
                text='Search vs forward lookup on every table zone up to the bound (<= 2 transitions quick, 3 thorough; + Fixed rule; leap variant), every civil second count and every instant: soundness, completeness, no duplicate valid instants, unique(). DST-rule zones (thorough): the real search over abstract rule-day instants obeying contracts discharged in C04, against the real lookup (c05_rule_abstract) and against the C04 specification (c05_rulespec_*).'),
    'C06': dict(engine='B', technique=TECH_B + '; civil time abstracted to its second count (contracts C01/C02)', ref='DESIGN.md section 4, C05/C06', note=NOTE_B,
                text='Same zones: each Skipped entry is a real forward jump containing the local time with the right before/after types; every table gap containing it is reported; ascending order; earliest/latest are the extremes. DST-rule zones in the thorough tier (c06_rule_abstract, c06_rulespec_*).'),
    'C07': dict(engine='AB', technique=TECH_A + ' for every overflow/bounds/division/cast/unreachable/unwinding site; ' + TECH_B + ' default checks', ref='DESIGN.md section 4, C07', note=NOTE_A + ' ' + NOTE_B,
                text='Panic-freedom as proof obligations: all arithmetic kernels for ALL inputs (Engine A), table/constructor/search/parser units under CBMC\'s checks with unwinding assertions (Engine B); allocation bounded by bytes present (layout harness).'),
    'C08': dict(engine='B', technique=TECH_B + '; unit contracts + composition with abstracted callees', ref='DESIGN.md section 4, C08', note=NOTE_B + ' Paper step: units = reference and composition = reference composition => whole decoder = reference.',
                text='Real parse_header (all buffers <= 46 B), read_data_blocks::<4>/<8> (all u32 counts), DataBlocks::parse on minimal shapes with symbolic bytes (incl. a 10-byte designation table: every designation length at every index), parse_footer framing, and parse_tz_file on arbitrary <= 112-byte files with record decoding abstracted, each against an RFC 8536 reference typed in the harness.'),
    'C09': dict(engine='B', technique=TECH_B + '; unit contracts + composition with abstracted callees', ref='DESIGN.md section 4, C09', note=NOTE_B + ' S_utf8 stub discharged on <= 3 arbitrary bytes.',
                text='Each TZ-string sub-parser on arbitrary ASCII bytes up to its longest sentence (5..10 bytes) against a reference recogniser (accept/reject, value, bytes consumed); parse_posix_tz on <= 6 arbitrary bytes with abstracted callees against a replay of the grammar on the call log (negation, default DST offset, default 02:00, separators, trailing data); rule times additionally through parse_rule_block with the real time parsers behind it (harnesses that survive refactors of the private units).'),
    'C13': dict(engine='AB', technique=TECH_B + '; ' + TECH_A + ' for the designation / local-time-type constructors', ref='DESIGN.md section 4, C13', note=NOTE_B + ' ' + NOTE_A,
                text='TimeZoneRef::new / TimeZone::new on arbitrary lists (<= 3 each): Ok <=> spec predicate, every error kind names a violated clause, owned = borrowed; TzAsciiStr::new/as_bytes and LocalTimeType::new for every slice of length 0..9.'),
    'C14': dict(engine='AB', technique=TECH_A + ' for the constructors; ' + TECH_B + ' for plumbing and comparisons', ref='DESIGN.md section 4, C14', note=NOTE_A + ' ' + NOTE_B,
                text='Invariant per constructor for all inputs (DateTime::new, from_timespec_and_local on the MIR), from_timespec/project preserve instant and nanoseconds (Kani), equality/ordering depend only on (unix_time, ns) for arbitrary literals (Kani); every entry the search hands out on leap-second zones satisfies the invariant (Kani).'),
    'C16': dict(engine='AB', technique=TECH_A + '; ' + TECH_B + ' for the zone-taking constructor', ref='DESIGN.md section 4, C16', note=NOTE_A + ' Floor model of i128::div_euclid/rem_euclid.',
                text='All i128 nanosecond counts and all (i64,u32) pairs: split exact and floor-based, accepted <=> seconds fit i64, recombination exact, constructors from total nanoseconds equal the pair constructors, round trips, nanoseconds >= 1e9 refused; the zone-taking constructor equals from_timespec on the floor split for every table zone of the bound (Kani, split replaced by its proven contract).'),
    'C17': dict(engine='B', technique=TECH_B, ref='DESIGN.md section 4, C17', note=NOTE_B,
                text='Both instantiations of the generic search on the same symbolic zone and civil time, for every buffer length 0..N+2 with a stale sentinel: count, prefix, exhaustiveness, untouched slots, error kind, unique/earliest/latest; Vec instantiation entry-wise equal.'),
    'C18': dict(engine='A', technique=TECH_A + '; core::fmt abstracted as output events, templates compared with the compiler\'s own for the prescribed format strings', ref='DESIGN.md section 4, C18', note=NOTE_A + ' core::fmt rendering of a given template is trusted (cross-checked natively on concrete values).',
                text='For all field values and offsets: which template is used, which values are handed to it in which order, Z vs offset vs optional seconds, error propagation, Display impls pass the right fields/offset.'),
    'C19': dict(engine='AB', technique=TECH_A + ' and ' + TECH_B + ', run per feature configuration', ref='DESIGN.md section 4, C19', note=NOTE_A + ' ' + NOTE_B,
                text='The crate is built (MIR) with no features, alloc, and std; kernel MIR compared across configurations; a core set of claims decided on each configuration\'s own MIR; allocation-free harnesses verified under each feature set.'),
    'C20': dict(engine='AB', technique=TECH_B + ' over a nondeterministic virtual file system; ' + TECH_A + ' (structural reading of the MIR) for the path template', ref='DESIGN.md section 4, C20', note=NOTE_B + ' S_tzfile, S_fmt_token stubs.',
                text='For each listed TZ value and directory list, every file-system response table: exact read sequence (order, stop at first readable, no read for the empty value), result class (Ok / TzFile without fallback / Io / POSIX fallback on the trimmed string); candidate path = format!("{}/{}", dir, name), and the looked-up name is the value exactly as given (MIR call-site reading + a padded-absolute-path instance).'),
}
NA = {
    'C10': 'oracle is glibc/CPython run on concrete IANA files: foreign code cannot be executed symbolically and comparing concrete runs is enumeration, not a solver verdict (DESIGN.md section 5)',
    'C15': 'absence of global/interior state over all thread schedules and future edits is a whole-program syntactic/type fact; Kani does not model concurrency and there is no assertion over symbolic inputs to refute (DESIGN.md section 5)',
}
PENDING = 'check not built yet in this session (planned, see DESIGN.md section 8)'

checks = []
for pid, c in sorted(CLAIMED.items()):
    checks.append({
        'property_id': pid, 'quick_cmd': f'./check {pid} --tier quick', 'thorough_cmd': f'./check {pid} --tier thorough',
        'evidence_file': f'/verif/evidence/{pid}.json', 'replay_cmd_template': f'./check {pid} --replay {{path}}',
        'engine': {'A': 'mir2smt', 'B': 'kani', 'AB': 'mir2smt+kani'}[c['engine']],
        'level_claimed': {'category': 'model_checking', 'text': c['text'], 'design_ref': c['ref']},
        'level_note': c['note'], 'technique': c['technique'],
    })
na = [{'property_id': p, 'reason': r} for p, r in sorted(NA.items())]
for pid in sorted(titles):
    if pid not in CLAIMED and pid not in NA:
        na.append({'property_id': pid, 'reason': PENDING})
m = {
    'version': 1,
    'setup_cmd': 'python3 tools_setup.py',
    'hooks': {'guard': 'cfg(kani) / cfg(verif_replay) in a scratch overlay copy only', 'enable': 'checks copy /repo/{Cargo.toml,Cargo.lock,src} to a scratch dir and append child modules there; nothing is added to /repo',
              'baseline_off_cmd': 'cd /repo && cargo test --workspace --no-fail-fast --offline', 'source_commits': [], 'add_only': True},
    'engines': [
        {'name': 'mir2smt', 'path': 'lib/mir2smt.py', 'serves_properties': [p for p, c in sorted(CLAIMED.items()) if 'A' in c['engine']], 'kind_free_text': 'rustc MIR dump of the working tree -> bounded VC generator -> SMT-LIB Int -> cvc5 (+ z3 second opinion)'},
        {'name': 'kani', 'path': 'kani/', 'serves_properties': [p for p, c in sorted(CLAIMED.items()) if 'B' in c['engine']], 'kind_free_text': 'Kani 0.68 / CBMC 6.11 proof harnesses compiled into a scratch overlay copy of the working tree'},
    ],
    'checks': checks,
    'not_applicable': sorted(na, key=lambda x: x['property_id']),
    'notes': 'Solver-based checking of the real code; exit 0 = all required queries/harnesses decided as expected, 1 = reproduced violation, 2 = inconclusive. See DESIGN.md.',
}
json.dump(m, open(os.path.join(HERE, 'MANIFEST.json'), 'w'), indent=1)
print('manifest:', len(checks), 'checks,', len(na), 'not applicable')
