#!/usr/bin/env python3
"""Regenerates MANIFEST.json from the table below (kept in one place so the manifest stays valid)."""
import json, os
HERE = os.path.dirname(os.path.abspath(__file__))
titles = {json.loads(l)['id']: json.loads(l)['title'] for l in open(os.path.join(HERE, 'properties.jsonl'))}

CLAIMED = {
    'C16': dict(engine='A', technique='bounded symbolic execution of the real MIR -> SMT-LIB (Int) -> cvc5 (z3 second opinion); counterexamples replayed natively',
                text='Solver verdict (UNSAT of the negated property) over ALL i128 nanosecond counts and all (i64,u32) pairs on the encoding of the real MIR of total_nanoseconds_to_timespec, nanoseconds_since_unix_epoch, the from_total_nanoseconds constructors and the total_nanoseconds getters; every overflow/cast/division site is an obligation. No bound beyond the machine types (no loops except the 12-iteration month loop inside from_timespec, unwinding obligation discharged).',
                note='Trusted: rustc MIR of the pinned nightly, the MIR->SMT encoder (validated on every run against the native dev and release builds on random and boundary vectors), cvc5/z3, the floor model of i128::div_euclid/rem_euclid.',
                ref='DESIGN.md section 4, C16'),
}
NA = {
    'C10': 'oracle is glibc/CPython run on concrete IANA files: foreign code cannot be executed symbolically and comparing concrete runs is enumeration, not a solver verdict (DESIGN.md section 5)',
    'C15': 'absence of global/interior state over all thread schedules and future edits is a whole-program syntactic/type fact; Kani does not model concurrency and there is no assertion over symbolic inputs to refute (DESIGN.md section 5)',
}
PENDING = 'check not built yet in this session (planned, see DESIGN.md section 8)'

checks = []
for pid, c in sorted(CLAIMED.items()):
    checks.append({
        'property_id': pid, 'quick_cmd': f'./check {pid} --tier quick', 'thorough_cmd': f'./check {pid} --tier thorough',
        'evidence_file': f'/verif/evidence/{pid}.json', 'replay_cmd_template': f'./check {pid} --replay {{path}}',
        'engine': {'A': 'mir2smt', 'B': 'kani', 'AB': 'mir2smt+kani'}[c['engine']],
        'level_claimed': {'category': 'model_checking', 'text': c['text'], 'design_ref': c['ref']},
        'level_note': c['note'], 'technique': c['technique'],
    })
na = [{'property_id': p, 'reason': r} for p, r in sorted(NA.items())]
for pid in sorted(titles):
    if pid not in CLAIMED and pid not in NA:
        na.append({'property_id': pid, 'reason': PENDING})
m = {
    'version': 1,
    'setup_cmd': 'python3 tools_setup.py',
    'hooks': {'guard': 'cfg(kani) / cfg(verif_replay) in a scratch overlay copy only', 'enable': 'checks copy /repo/{Cargo.toml,Cargo.lock,src} to a scratch dir and append child modules there; nothing is added to /repo',
              'baseline_off_cmd': 'cd /repo && cargo test --workspace --no-fail-fast --offline', 'source_commits': [], 'add_only': True},
    'engines': [
        {'name': 'mir2smt', 'path': 'lib/mir2smt.py', 'serves_properties': [p for p, c in sorted(CLAIMED.items()) if 'A' in c['engine']], 'kind_free_text': 'rustc MIR dump of the working tree -> bounded VC generator -> SMT-LIB Int -> cvc5 (+ z3 second opinion)'},
        {'name': 'kani', 'path': 'kani/', 'serves_properties': [p for p, c in sorted(CLAIMED.items()) if 'B' in c['engine']], 'kind_free_text': 'Kani 0.68 / CBMC 6.11 proof harnesses compiled into a scratch overlay copy of the working tree'},
    ],
    'checks': checks,
    'not_applicable': sorted(na, key=lambda x: x['property_id']),
    'notes': 'Solver-based checking of the real code; exit 0 = all required queries/harnesses decided as expected, 1 = reproduced violation, 2 = inconclusive. See DESIGN.md.',
}
json.dump(m, open(os.path.join(HERE, 'MANIFEST.json'), 'w'), indent=1)
print('manifest:', len(checks), 'checks,', len(na), 'not applicable')
