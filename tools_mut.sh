#!/bin/bash
# usage: tools_mut.sh <name> <file-rel> <sed-expr> <check-id> [tier]   -- scratch mutant of /repo, cargo test, then the check against it
set -u
name=$1; file=$2; expr=$3; id=$4; tier=${5:-quick}
d=/var/tmp/mut/$name
rm -rf $d; mkdir -p $d; cp -r /repo/Cargo.toml /repo/Cargo.lock /repo/src $d/
sed -i "$expr" $d/$file
if diff -q /repo/$file $d/$file >/dev/null; then echo "MUTATION DID NOT APPLY"; exit 3; fi
diff /repo/$file $d/$file | head -6
if [ -z "${SKIP_TEST:-}" ]; then
( cd $d && CARGO_TARGET_DIR=/var/tmp/mut/target cargo test --offline -q 2>&1 | grep -E "^test result|FAILED|failed" | head -5 )
fi
cd /verif && VERIF_REPO=$d ./check $id --tier $tier 2>&1 | grep -E "VIOLATION|KNOWN|INCONCLUSIVE|^\[C|  [a-z]" | head -${LINES_OUT:-12}
echo "exit=${PIPESTATUS[0]}"
rm -rf $d
