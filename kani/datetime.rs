//! Kani proof harnesses (overlay only, `cfg(kani)`): child module of `datetime`.
//! C03 (plumbing), C05/C06 (search vs forward lookup), C14 (invariant, comparisons), C17 (buffer search).
#![allow(dead_code, unused_imports, missing_docs, clippy::all)]
use super::*;
use crate::timezone::verif_kani::{any_leaps3, any_ltt, stub_alt_find, stub_rule_unix_time};
use crate::timezone::{LeapSecond, LocalTimeType, TimeZoneRef, Transition, TransitionRule};
use core::sync::atomic::{AtomicI64, Ordering as AO};

const MIN_T: i64 = -67768100567971200;
const MAX_T: i64 = 67767976233532799;

/// S_civil: the civil second count of the searched fields (C02: unix_time is exactly that count, injective on valid fields)
static CIVIL: AtomicI64 = AtomicI64::new(0);
fn stub_unix_time(_y: i32, _m: u8, _d: u8, _h: u8, _mi: u8, _s: u8) -> i64 {
    CIVIL.load(AO::Relaxed)
}

/// S_pack: range gate + injective packing of the instant into the fields (the real meaning of the fields is C01)
fn stub_from_timespec(t: i64, nanoseconds: u32) -> Result<UtcDateTime, TzError> {
    if !(MIN_T <= t && t <= MAX_T) {
        return Err(TzError::OutOfRange);
    }
    let b = t.to_le_bytes();
    Ok(UtcDateTime { year: i32::from_le_bytes([b[4], b[5], b[6], b[7]]), month: b[0], month_day: b[1], hour: b[2], minute: b[3], second: 0, nanoseconds })
}
fn packed_is(dt: &DateTime, w: i64) -> bool {
    let b = w.to_le_bytes();
    dt.year == i32::from_le_bytes([b[4], b[5], b[6], b[7]]) && dt.month == b[0] && dt.month_day == b[1] && dt.hour == b[2] && dt.minute == b[3] && dt.second == 0
}

fn any_zone_parts<const N: usize>() -> ([LocalTimeType; 3], [Transition; N], usize, [LeapSecond; 3], usize, Option<TransitionRule>) {
    let types = [any_ltt(), any_ltt(), any_ltt()];
    let tr: [Transition; N] = core::array::from_fn(|_| Transition::new(kani::any(), kani::any()));
    let n: usize = kani::any();
    kani::assume(n <= N);
    let (ls, m) = any_leaps3();
    kani::assume(m <= 1);
    let has_rule: bool = kani::any();
    let rule = if has_rule { Some(TransitionRule::Fixed(any_ltt())) } else { None };
    (types, tr, n, ls, m, rule)
}

// ------------------------------------------------------------------ C03 / C14 plumbing
#[kani::proof]
#[kani::unwind(6)]
#[kani::stub(crate::datetime::UtcDateTime::from_timespec, stub_from_timespec)]
#[kani::stub(crate::timezone::RuleDay::unix_time, stub_rule_unix_time)]
#[kani::stub(crate::timezone::AlternateTime::find_local_time_type, stub_alt_find)]
fn c03_plumb() {
    let (types, tr, n, ls, m, rule) = any_zone_parts::<2>();
    kani::assume(m <= 1);
    let t: i64 = kani::any();
    let ns: u32 = kani::any();
    // 1..3 local time types (a zone with a single type, transitions and no rule still has no type after its last transition)
    let nt: usize = kani::any();
    kani::assume(1 <= nt && nt <= 3);
    let zone = match TimeZoneRef::new(&tr[..n], &types[..nt], &ls[..m], &rule) {
        Ok(z) => z,
        Err(_) => return,
    };
    let r = DateTime::from_timespec(t, ns, zone);
    match zone.find_local_time_type(t) {
        Err(e) => assert!(matches!(&r, Err(x) if core::mem::discriminant(x) == core::mem::discriminant(&e))),
        Ok(l) => {
            let w = t as i128 + l.ut_offset() as i128;
            if w < MIN_T as i128 || w > MAX_T as i128 {
                assert!(matches!(&r, Err(TzError::OutOfRange)));
            } else {
                match &r {
                    Ok(dt) => {
                        assert!(dt.unix_time == t && dt.nanoseconds == ns);
                        assert!(dt.local_time_type.ut_offset() == l.ut_offset() && dt.local_time_type.is_dst() == l.is_dst());
                        assert!(packed_is(dt, w as i64));
                        // projection into the same or another zone keeps the instant (C14)
                        let p = dt.project(zone);
                        assert!(matches!(&p, Ok(q) if q.unix_time == t && q.nanoseconds == ns && packed_is(q, w as i64)));
                        let utc = TimeZoneRef::utc();
                        if MIN_T <= t && t <= MAX_T {
                            let q = dt.project(utc);
                            assert!(matches!(&q, Ok(q) if q.unix_time == t && q.nanoseconds == ns && q.local_time_type.ut_offset() == 0 && packed_is(q, t)));
                        }
                    }
                    Err(_) => assert!(false),
                }
            }
        }
    }
    kani::cover!(r.is_ok() && n == 2);
    kani::cover!(matches!(&r, Err(TzError::OutOfRange)));
    kani::cover!(matches!(&r, Err(TzError::NoAvailableLocalTimeType)));
    kani::cover!(matches!(&r, Err(TzError::NoAvailableLocalTimeType)) && nt == 1 && n >= 1);
}


// ------------------------------------------------------------------ C16: DateTime::from_total_nanoseconds(n, zone) is the (seconds, nanoseconds)
// constructor on the FLOOR split of n - decided for every i128 count and every zone of the bound. The split itself is Engine A's
// (C16: all i128); here it is replaced by its proven contract (the unique (s, r) with n = s*10^9 + r, 0 <= r < 10^9; OutOfRange iff s
// does not fit i64), so that CBMC sees no 128-bit division on the unchanged tree; any other arithmetic on n that the function under
// test performs itself (say, a truncating division used for the lookup) is executed for real.
fn stub_split_contract(total_nanoseconds: i128) -> Result<(i64, u32), TzError> {
    // the harness builds the count FROM its floor split (s, r), so the unique split of that count is known without dividing
    let s = ((SPLIT_S[0].load(AO::Relaxed) as i128) << 32) | (SPLIT_S[1].load(AO::Relaxed) as i128);
    let r = SPLIT_S[2].load(AO::Relaxed) as i128;
    assert!(total_nanoseconds == s * 1_000_000_000 + r);
    if s < i64::MIN as i128 || s > i64::MAX as i128 {
        Err(TzError::OutOfRange)
    } else {
        Ok((s as i64, r as u32))
    }
}
static SPLIT_S: [AtomicI64; 3] = [AtomicI64::new(0), AtomicI64::new(0), AtomicI64::new(0)];

#[kani::proof]
#[kani::unwind(6)]
#[kani::stub(crate::datetime::total_nanoseconds_to_timespec, stub_split_contract)]
#[kani::stub(crate::datetime::UtcDateTime::from_timespec, stub_from_timespec)]
#[kani::stub(crate::timezone::RuleDay::unix_time, stub_rule_unix_time)]
#[kani::stub(crate::timezone::AlternateTime::find_local_time_type, stub_alt_find)]
fn c16_total_with_zone() {
    let (types, tr, n, _ls, _m, rule) = any_zone_parts::<2>();
    let zone = match TimeZoneRef::new(&tr[..n], &types, &[], &rule) {
        Ok(z) => z,
        Err(_) => return,
    };
    // every i128 count whose seconds lie within +-2^70 (beyond i64 on both sides), built from its own floor split
    let s: i128 = kani::any();
    let r: i128 = kani::any();
    kani::assume(-(1i128 << 70) < s && s < (1i128 << 70));
    kani::assume(0 <= r && r < 1_000_000_000);
    let total = s * 1_000_000_000 + r;
    SPLIT_S[0].store((s >> 32) as i64, AO::Relaxed);
    SPLIT_S[1].store((s & 0xffff_ffff) as i64, AO::Relaxed);
    SPLIT_S[2].store(r as i64, AO::Relaxed);
    let got = DateTime::from_total_nanoseconds(total, zone);
    if s < i64::MIN as i128 || s > i64::MAX as i128 {
        assert!(matches!(&got, Err(TzError::OutOfRange)));
        return;
    }
    let want = DateTime::from_timespec(s as i64, r as u32, zone);
    match (&got, &want) {
        (Ok(a), Ok(b)) => {
            assert!(a.unix_time == s as i64 && a.nanoseconds == r as u32);
            assert!(a.unix_time == b.unix_time && a.nanoseconds == b.nanoseconds);
            assert!(a.local_time_type.ut_offset() == b.local_time_type.ut_offset() && a.local_time_type.is_dst() == b.local_time_type.is_dst());
            assert!(packed_is(a, (s + b.local_time_type.ut_offset() as i128) as i64));
            assert!(a.total_nanoseconds() == total);
        }
        (Err(x), Err(y)) => assert!(core::mem::discriminant(x) == core::mem::discriminant(y)),
        _ => assert!(false),
    }
    kani::cover!(got.is_ok() && total < 0 && r != 0 && n == 2);
    kani::cover!(matches!(&got, Err(TzError::NoAvailableLocalTimeType)));
}

/// C14: equality and ordering depend only on (unix_time, nanoseconds), for arbitrary (even inconsistent) field values
#[kani::proof]
fn c14_eq_ord() {
    let mk = || DateTime {
        year: kani::any(),
        month: kani::any(),
        month_day: kani::any(),
        hour: kani::any(),
        minute: kani::any(),
        second: kani::any(),
        local_time_type: any_ltt(),
        unix_time: kani::any(),
        nanoseconds: kani::any(),
    };
    let a = mk();
    let b = mk();
    assert!((a == b) == (a.unix_time == b.unix_time && a.nanoseconds == b.nanoseconds));
    let exp = if a.unix_time < b.unix_time {
        Ordering::Less
    } else if a.unix_time > b.unix_time {
        Ordering::Greater
    } else if a.nanoseconds < b.nanoseconds {
        Ordering::Less
    } else if a.nanoseconds > b.nanoseconds {
        Ordering::Greater
    } else {
        Ordering::Equal
    };
    assert!(a.partial_cmp(&b) == Some(exp));
    assert!((a < b) == (exp == Ordering::Less) && (a >= b) == (exp != Ordering::Less));
}

/// derive(Ord) of UtcDateTime is lexicographic on (year, month, day, hour, minute, second, ns)  (used by C02's spec)
#[kani::proof]
fn c02_derive_ord_is_lexicographic() {
    let mk = || UtcDateTime { year: kani::any(), month: kani::any(), month_day: kani::any(), hour: kani::any(), minute: kani::any(), second: kani::any(), nanoseconds: kani::any() };
    let a = mk();
    let b = mk();
    let ka = (a.year, a.month, a.month_day, a.hour, a.minute, a.second, a.nanoseconds);
    let kb = (b.year, b.month, b.month_day, b.hour, b.minute, b.second, b.nanoseconds);
    assert!(a.cmp(&b) == ka.cmp(&kb));
    assert!((a == b) == (ka == kb));
}

// ------------------------------------------------------------------ C05 / C06 / C17: search on table (+ fixed rule) zones
const Y: i32 = 2000;
const NS: u32 = 5;

fn entry_instant(e: &FoundDateTimeKind) -> i64 {
    match e {
        FoundDateTimeKind::Normal(d) => d.unix_time,
        FoundDateTimeKind::Skipped { before_transition, .. } => before_transition.unix_time,
    }
}

fn searched_fields(d: &DateTime) -> bool {
    d.year == Y && d.month == 1 && d.month_day == 1 && d.hour == 0 && d.minute == 0 && d.second == 0 && d.nanoseconds == NS
}

fn search_body<const N: usize, const L: usize, const BUF: usize, const R: bool>(c05: bool, c06: bool) {
    search_body_inv::<N, L, BUF, R>(c05, c06, false)
}

fn search_body_inv<const N: usize, const L: usize, const BUF: usize, const R: bool>(c05: bool, c06: bool, c14: bool) {
    let c: i64 = kani::any();
    kani::assume(MIN_T <= c && c <= MAX_T + 1);
    CIVIL.store(c, AO::Relaxed);
    let (types, tr, n, ls, m, rule) = any_zone_parts::<N>();
    // R = false: zones without a trailing rule only (constant None, so that the rule arms are pruned)
    let rule: Option<TransitionRule> = if R { rule } else { None };
    let lsr: &[LeapSecond] = if L == 0 { &[] } else { &ls[..m] };
    let zone = match TimeZoneRef::new(&tr[..n], &types, lsr, &rule) {
        Ok(z) => z,
        Err(_) => return,
    };
    if L > 0 {
        // known finding F3 (role two-transitions-at-one-utc-instant): two table transitions one leap count apart around an inserted
        // leap second denote the same UTC instant; the intermediate type is never in force and gap entries name it. Excluded here.
        let mut q = 0;
        while q + 1 < n {
            let a = zone.unix_leap_time_to_unix_time(tr[q].unix_leap_time());
            let b = zone.unix_leap_time_to_unix_time(tr[q + 1].unix_leap_time());
            if let (Ok(a), Ok(b)) = (a, b) {
                kani::assume(a != b);
            }
            q += 1;
        }
    }
    // (a buffer pre-filled with stale entries made these harnesses 2-3x slower - 800+ s instead of 440 s - and pushed the quick tier over
    // its time limit; stale slots are decided by c17_push_sequences for every push sequence and by the rule-zone harnesses)
    let mut buf: [Option<FoundDateTimeKind>; BUF] = [None; BUF];
    let list = match DateTime::find_n(&mut buf, Y, 1, 1, 0, 0, 0, NS, zone) {
        Ok(l) => l,
        Err(e) => {
            assert!(matches!(e, TzError::OutOfRange));
            return;
        }
    };
    let k = list.count();
    assert!(list.is_exhaustive() && k <= N + 1);
    let data = list.data();
    assert!(data.len() == k);
    kani::cover!(k >= N);
    kani::cover!(k == 0);
    let i: usize = kani::any();
    kani::assume(i < k);
    let ei = match &data[i] {
        Some(e) => e,
        None => {
            assert!(false);
            return;
        }
    };
    if c14 {
        // C14 invariant on every entry the search hands out: fields are those of (unix_time + offset); Normal entries carry the
        // searched fields, gap entries are the packed (S_pack) fields of the transition instant on either clock
        match ei {
            FoundDateTimeKind::Normal(dt) => {
                assert!(searched_fields(dt));
                assert!(dt.unix_time as i128 + dt.local_time_type.ut_offset() as i128 == c as i128);
            }
            FoundDateTimeKind::Skipped { before_transition: b, after_transition: a } => {
                assert!(a.unix_time == b.unix_time && b.nanoseconds == NS && a.nanoseconds == NS);
                assert!(packed_is(b, (b.unix_time as i128 + b.local_time_type.ut_offset() as i128) as i64));
                assert!(packed_is(a, (a.unix_time as i128 + a.local_time_type.ut_offset() as i128) as i64));
            }
        }
        kani::cover!(matches!(ei, FoundDateTimeKind::Normal(_)) && m == 1 && ls[0].unix_leap_time() < c);
        if R || N > 1 {
            // (without a trailing rule the last transition's gap is not reported, so a single-transition table has no gap entries)
            kani::cover!(matches!(ei, FoundDateTimeKind::Skipped { .. }));
        }
    }
    if c05 {
        // soundness: a valid result is an instant at which the zone's clock shows the searched fields, with that type
        if let FoundDateTimeKind::Normal(dt) = ei {
            assert!(searched_fields(dt));
            assert!(dt.unix_time as i128 + dt.local_time_type.ut_offset() as i128 == c as i128);
            match zone.find_local_time_type(dt.unix_time) {
                Ok(l) => assert!(l.ut_offset() == dt.local_time_type.ut_offset() && l.is_dst() == dt.local_time_type.is_dst()),
                Err(_) => assert!(false),
            }
        }
        // completeness: every instant showing the searched fields is among the valid results
        let u: i64 = kani::any();
        if let Ok(l) = zone.find_local_time_type(u) {
            if u as i128 + l.ut_offset() as i128 == c as i128 {
                let mut found = false;
                let mut j = 0;
                while j < k {
                    if let Some(FoundDateTimeKind::Normal(d)) = &data[j] {
                        if d.unix_time == u {
                            found = true;
                        }
                    }
                    j += 1;
                }
                assert!(found);
            }
        }
        // unique() is present exactly when there is a single valid result and nothing else
        let uq = list.unique();
        assert!(uq.is_some() == (k == 1 && matches!(&data[0], Some(FoundDateTimeKind::Normal(_)))));
        kani::cover!(k >= 2 && matches!(ei, FoundDateTimeKind::Normal(_)));
    }
    if c06 {
        if let FoundDateTimeKind::Skipped { before_transition: b, after_transition: a } = ei {
            let t = b.unix_time;
            assert!(a.unix_time == t && b.nanoseconds == NS && a.nanoseconds == NS);
            let ob = b.local_time_type.ut_offset() as i128;
            let oa = a.local_time_type.ut_offset() as i128;
            assert!(ob < oa);
            assert!(t as i128 + ob <= c as i128 && (c as i128) < t as i128 + oa);
            // the clock really jumps at t: lookup just before / at t gives the two types
            if let Ok(l) = zone.find_local_time_type(t) {
                assert!(l.ut_offset() as i128 == oa);
            } else {
                assert!(false);
            }
            if t > i64::MIN {
                if let Ok(l) = zone.find_local_time_type(t - 1) {
                    assert!(l.ut_offset() as i128 == ob);
                }
            }
            assert!(packed_is(b, (t as i128 + ob) as i64) && packed_is(a, (t as i128 + oa) as i64));
        }
        kani::cover!(matches!(ei, FoundDateTimeKind::Skipped { .. }));
        kani::cover!(matches!(ei, FoundDateTimeKind::Normal(_)) && k == 2);
        // conversely: every table gap containing the searched local time is reported
        let g: usize = kani::any();
        kani::assume(g < n && (g + 1 < n || rule.is_some()));
        if let Ok(t) = zone.unix_leap_time_to_unix_time(tr[g].unix_leap_time()) {
            let ob = if g == 0 { types[0].ut_offset() } else { types[tr[g - 1].local_time_type_index()].ut_offset() } as i128;
            let oa = types[tr[g].local_time_type_index()].ut_offset() as i128;
            if t as i128 + ob <= c as i128 && (c as i128) < t as i128 + oa {
                let mut found = false;
                let mut q = 0;
                while q < k {
                    if let Some(FoundDateTimeKind::Skipped { before_transition, .. }) = &data[q] {
                        if before_transition.unix_time == t {
                            found = true;
                        }
                    }
                    q += 1;
                }
                assert!(found);
            }
        }
        // earliest / latest are the true extremes
        let first = match &data[0] {
            Some(e) => entry_instant(e),
            None => 0,
        };
        let last = match &data[k - 1] {
            Some(e) => entry_instant(e),
            None => 0,
        };
        assert!(matches!(list.earliest(), Some(d) if d.unix_time == first && first <= entry_instant(ei)));
        assert!(matches!(list.latest(), Some(d) if d.unix_time == last && last >= entry_instant(ei)));
    }
    // ascending order of instant; no valid instant duplicated (two transitions one count apart around an inserted leap
    // second denote the same UTC instant, so a gap entry may share its instant with a neighbour: only `<=` is demanded there)
    let j: usize = kani::any();
    if j < k && i < j {
        match &data[j] {
            Some(ej) => {
                assert!(entry_instant(ei) <= entry_instant(ej));
                if matches!(ei, FoundDateTimeKind::Normal(_)) && matches!(ej, FoundDateTimeKind::Normal(_)) {
                    assert!(entry_instant(ei) < entry_instant(ej));
                }
                if L == 0 {
                    assert!(entry_instant(ei) < entry_instant(ej));
                }
            }
            None => assert!(false),
        }
    }
}

macro_rules! search_harness {
    ($name:ident, $n:expr, $leaps:expr, $c05:expr, $c06:expr, $unwind:expr, $rule:expr) => {
        #[kani::proof]
        #[kani::unwind($unwind)]
        #[kani::stub(crate::datetime::unix_time, stub_unix_time)]
        #[kani::stub(crate::datetime::UtcDateTime::from_timespec, stub_from_timespec)]
        #[kani::stub(crate::timezone::RuleDay::unix_time, stub_rule_unix_time)]
        #[kani::stub(crate::timezone::AlternateTime::find_local_time_type, stub_alt_find)]
        fn $name() {
            search_body::<$n, $leaps, { $n + 2 }, $rule>($c05, $c06);
        }
    };
}
search_harness!(c05_table_n1, 1, 0, true, false, 5, true);
search_harness!(c05_table_n2, 2, 0, true, false, 6, true);
search_harness!(c05_table_n3, 3, 0, true, false, 7, true);
search_harness!(c05_table_leap1_n2, 2, 1, true, false, 6, true);
search_harness!(c06_table_n1, 1, 0, false, true, 5, true);
search_harness!(c06_table_n2, 2, 0, false, true, 6, true);
search_harness!(c06_table_n3, 3, 0, false, true, 7, true);
search_harness!(c06_table_leap1_n2, 2, 1, false, true, 6, true);
search_harness!(c05_table_leap1_norule_n2, 2, 1, true, false, 6, false);

// C14: the invariant of every date-time the search hands out, on zones WITH a leap-second table (the table walk converts between
// the two time scales; an entry built from the wrong scale keeps the searched fields but not the instant)
#[kani::proof]
#[kani::unwind(5)]
#[kani::stub(crate::datetime::unix_time, stub_unix_time)]
#[kani::stub(crate::datetime::UtcDateTime::from_timespec, stub_from_timespec)]
#[kani::stub(crate::timezone::RuleDay::unix_time, stub_rule_unix_time)]
#[kani::stub(crate::timezone::AlternateTime::find_local_time_type, stub_alt_find)]
fn c14_search_entries_leap1_norule_n1() {
    search_body_inv::<1, 1, 3, false>(false, false, true);
}

#[kani::proof]
#[kani::unwind(5)]
#[kani::stub(crate::datetime::unix_time, stub_unix_time)]
#[kani::stub(crate::datetime::UtcDateTime::from_timespec, stub_from_timespec)]
#[kani::stub(crate::timezone::RuleDay::unix_time, stub_rule_unix_time)]
#[kani::stub(crate::timezone::AlternateTime::find_local_time_type, stub_alt_find)]
fn c14_search_entries_leap1_fixed_n1() {
    search_body_inv::<1, 1, 3, true>(false, false, true);
}
search_harness!(c06_table_leap1_norule_n2, 2, 1, false, true, 6, false);

// ------------------------------------------------------------------ C17
fn same_entry(a: &Option<FoundDateTimeKind>, b: &Option<FoundDateTimeKind>) -> bool {
    let same_dt = |x: &DateTime, y: &DateTime| {
        x.unix_time == y.unix_time
            && x.nanoseconds == y.nanoseconds
            && x.local_time_type.ut_offset() == y.local_time_type.ut_offset()
            && x.local_time_type.is_dst() == y.local_time_type.is_dst()
            && x.year == y.year
            && x.month == y.month
            && x.month_day == y.month_day
            && x.hour == y.hour
            && x.minute == y.minute
            && x.second == y.second
    };
    match (a, b) {
        (None, None) => true,
        (Some(FoundDateTimeKind::Normal(x)), Some(FoundDateTimeKind::Normal(y))) => same_dt(x, y),
        (Some(FoundDateTimeKind::Skipped { before_transition: a1, after_transition: a2 }), Some(FoundDateTimeKind::Skipped { before_transition: b1, after_transition: b2 })) => {
            same_dt(a1, b1) && same_dt(a2, b2)
        }
        _ => false,
    }
}

fn c17_body<const N: usize>(with_rule: bool) {
    let c: i64 = kani::any();
    kani::assume(MIN_T <= c && c <= MAX_T + 1);
    CIVIL.store(c, AO::Relaxed);
    let (types, tr, n, _ls, _m, rule) = any_zone_parts::<N>();
    if !with_rule {
        kani::assume(rule.is_none());
    }
    let zone = match TimeZoneRef::new(&tr[..n], &types, &[], &rule) {
        Ok(z) => z,
        Err(_) => return,
    };
    let mut full: [Option<FoundDateTimeKind>; 4] = [None; 4];
    let rfull = DateTime::find_n(&mut full[..N + 2], Y, 1, 1, 0, 0, 0, NS, zone);
    let sentinel = Some(FoundDateTimeKind::Normal(DateTime { year: 1, month: 1, month_day: 1, hour: 0, minute: 0, second: 0, local_time_type: LocalTimeType::utc(), unix_time: 424242, nanoseconds: 7 }));
    let mut small: [Option<FoundDateTimeKind>; 4] = [sentinel; 4];
    let len: usize = kani::any();
    kani::assume(len <= N + 2);
    let rs = DateTime::find_n(&mut small[..len], Y, 1, 1, 0, 0, 0, NS, zone);
    match (rfull, rs) {
        (Ok(f), Ok(s)) => {
            let k = f.count();
            assert!(f.is_exhaustive() && k <= N + 1);
            assert!(s.count() == k);
            let w = if len < k { len } else { k };
            assert!(s.data().len() == w);
            assert!(s.is_exhaustive() == (len >= k));
            if s.is_exhaustive() {
                assert!(s.unique().map(|d| d.unix_time) == f.unique().map(|d| d.unix_time));
                assert!(s.earliest().map(|d| d.unix_time) == f.earliest().map(|d| d.unix_time));
                assert!(s.latest().map(|d| d.unix_time) == f.latest().map(|d| d.unix_time));
                assert!(s.unique().map(|d| d.local_time_type.ut_offset()) == f.unique().map(|d| d.local_time_type.ut_offset()));
            }
            let i: usize = kani::any();
            kani::assume(i < 4);
            let (sd, fd) = (s.data(), f.data());
            if i < w {
                assert!(same_entry(&sd[i], &fd[i]));
            }
            kani::cover!(len < k);
            kani::cover!(len == 0 && k > 0);
            kani::cover!(len > k && k > 0);
            let _ = (sd, fd);
            if i >= w {
                assert!(same_entry(&small[i], &sentinel));
            }
        }
        (Err(x), Err(y)) => assert!(core::mem::discriminant(&x) == core::mem::discriminant(&y)),
        _ => assert!(false),
    }
}

#[kani::proof]
#[kani::unwind(8)]
#[kani::stub(crate::datetime::unix_time, stub_unix_time)]
#[kani::stub(crate::datetime::UtcDateTime::from_timespec, stub_from_timespec)]
#[kani::stub(crate::timezone::RuleDay::unix_time, stub_rule_unix_time)]
#[kani::stub(crate::timezone::AlternateTime::find_local_time_type, stub_alt_find)]
fn c17_buffer_n1() {
    c17_body::<1>(false);
}

#[kani::proof]
#[kani::unwind(8)]
#[kani::stub(crate::datetime::unix_time, stub_unix_time)]
#[kani::stub(crate::datetime::UtcDateTime::from_timespec, stub_from_timespec)]
#[kani::stub(crate::timezone::RuleDay::unix_time, stub_rule_unix_time)]
#[kani::stub(crate::timezone::AlternateTime::find_local_time_type, stub_alt_find)]
fn c17_buffer_n2_rule() {
    c17_body::<2>(true);
}

/// Vec instantiation (DateTime::find) vs buffer instantiation, entry-wise
#[cfg(feature = "alloc")]
#[kani::proof]
#[kani::unwind(8)]
#[kani::stub(crate::datetime::unix_time, stub_unix_time)]
#[kani::stub(crate::datetime::UtcDateTime::from_timespec, stub_from_timespec)]
#[kani::stub(crate::timezone::RuleDay::unix_time, stub_rule_unix_time)]
#[kani::stub(crate::timezone::AlternateTime::find_local_time_type, stub_alt_find)]
fn c17_vec_equals_buffer_n1() {
    let c: i64 = kani::any();
    kani::assume(MIN_T <= c && c <= MAX_T + 1);
    CIVIL.store(c, AO::Relaxed);
    let (types, tr, n, _ls, _m, rule) = any_zone_parts::<1>();
    let zone = match TimeZoneRef::new(&tr[..n], &types, &[], &rule) {
        Ok(z) => z,
        Err(_) => return,
    };
    let mut full: [Option<FoundDateTimeKind>; 4] = [None; 4];
    let rfull = DateTime::find_n(&mut full, Y, 1, 1, 0, 0, 0, NS, zone);
    let rv = DateTime::find(Y, 1, 1, 0, 0, 0, NS, zone);
    match (&rfull, &rv) {
        (Ok(f), Ok(v)) => {
            assert!(f.is_exhaustive());
            assert!(v.unique().map(|d| d.unix_time) == f.unique().map(|d| d.unix_time));
            assert!(v.earliest().map(|d| d.unix_time) == f.earliest().map(|d| d.unix_time));
            assert!(v.latest().map(|d| d.unix_time) == f.latest().map(|d| d.unix_time));
            let inner = v.clone().into_inner();
            assert!(inner.len() == f.count());
            let i: usize = kani::any();
            if i < inner.len() {
                assert!(same_entry(&Some(inner[i]), &f.data()[i]));
            }
            kani::cover!(inner.len() == 2);
            core::mem::forget(inner);
        }
        (Err(x), Err(y)) => assert!(core::mem::discriminant(x) == core::mem::discriminant(y)),
        _ => assert!(false),
    }
    core::mem::forget(rv);
}

use crate::timezone::{AlternateTime, Julian0WithLeap, Julian1WithoutLeap, MonthWeekDay, RuleDay};

// ------------------------------------------------------------------ C05 / C06 on DST-rule zones, ALL years and ALL rules: the rule-day
// instants and the calendar are abstracted by their contracts (discharged by Engine A in C04: L1 meaning of rule days, K1 locality,
// K2 yearly spacing, K3 year of an instant, K4 year length); search and forward lookup are the real code.
use core::sync::atomic::AtomicI32;
static ABS_BASE: AtomicI32 = AtomicI32::new(0);
static ABS_J: [AtomicI64; 6] = [AtomicI64::new(0), AtomicI64::new(0), AtomicI64::new(0), AtomicI64::new(0), AtomicI64::new(0), AtomicI64::new(0)];
static ABS_S: [AtomicI64; 5] = [AtomicI64::new(0), AtomicI64::new(0), AtomicI64::new(0), AtomicI64::new(0), AtomicI64::new(0)];
static ABS_DT: [AtomicI64; 2] = [AtomicI64::new(0), AtomicI64::new(0)];
static ABS_E: [AtomicI64; 5] = [AtomicI64::new(0), AtomicI64::new(0), AtomicI64::new(0), AtomicI64::new(0), AtomicI64::new(0)];

/// S_ruleday: start day is the (arbitrary, fixed) marker J1, end day the marker J2; the instant is the abstract table entry of that year
fn stub_rule_abs(d: &RuleDay, year: i32, dt: i64) -> i64 {
    let k = year as i64 - ABS_BASE.load(AO::Relaxed) as i64 + 2;
    assert!(0 <= k && k < 5);
    let is_start = matches!(d, RuleDay::Julian1WithoutLeap(x) if x.get() == 1);
    // the abstract instants were chosen for these day times (K1 is stated relative to them): every caller must pass exactly
    // "start time on the standard clock" / "end time on the daylight clock", converted to UTC
    assert!(dt == if is_start { ABS_DT[0].load(AO::Relaxed) } else { ABS_DT[1].load(AO::Relaxed) });
    if is_start {
        ABS_S[k as usize].load(AO::Relaxed)
    } else {
        ABS_E[k as usize].load(AO::Relaxed)
    }
}
/// S_year: K3 - the year of an instant is the one whose 1 January brackets it
fn stub_year_abs(t: i64, nanoseconds: u32) -> Result<UtcDateTime, TzError> {
    if !(MIN_T <= t && t <= MAX_T) {
        return Err(TzError::OutOfRange);
    }
    assert!(ABS_J[0].load(AO::Relaxed) <= t && t < ABS_J[5].load(AO::Relaxed));
    let mut year = ABS_BASE.load(AO::Relaxed) - 2;
    let mut i = 1;
    while i < 5 {
        if t >= ABS_J[i].load(AO::Relaxed) {
            year = ABS_BASE.load(AO::Relaxed) - 2 + i as i32;
        }
        i += 1;
    }
    let q = t.to_le_bytes();
    Ok(UtcDateTime { year, month: q[0], month_day: q[1], hour: q[2], minute: q[3], second: 0, nanoseconds })
}

const DAY: i64 = 86400;
const DTMAX: i64 = 7 * DAY + 26 * 3600;

fn abs_rule_body(c05: bool, c06: bool) {
    abs_rule_body_split(c05, c06, 0, 255)
}

/// pat: 0 = any accepted pattern, 1 = strictly northern, 2 = strictly southern, 3 = start/end coincide in every year;
/// part (bit mask): 1 soundness, 2 completeness + unique, 4 reported gap is real, 8 real gap is reported, 16 earliest, 32 order
fn abs_rule_body_split(c05: bool, c06: bool, pat: u8, part: u8) {
    let base: i32 = kani::any();
    kani::assume(i32::MIN + 4 <= base && base <= i32::MAX - 4);
    ABS_BASE.store(base, AO::Relaxed);
    // calendar: six consecutive 1 Januaries, each year 365 or 366 days (K4)
    let j0: i64 = kani::any();
    kani::assume(MIN_T + 400 * DAY <= j0 && j0 <= MAX_T - 2600 * DAY);
    let mut j = [j0; 6];
    let mut i = 1;
    while i < 6 {
        let leap: bool = kani::any();
        j[i] = j[i - 1] + if leap { 366 * DAY } else { 365 * DAY };
        i += 1;
    }
    i = 0;
    while i < 6 {
        ABS_J[i].store(j[i], AO::Relaxed);
        i += 1;
    }
    let std = any_ltt();
    let dst = any_ltt();
    kani::assume(-25 * 3600 < std.ut_offset() && std.ut_offset() < 26 * 3600 && -25 * 3600 < dst.ut_offset() && dst.ut_offset() < 26 * 3600);
    kani::assume(std.ut_offset() != dst.ut_offset());
    let st: i32 = kani::any();
    let et: i32 = kani::any();
    kani::assume(-7 * 86400 < st && st < 7 * 86400 && -7 * 86400 < et && et < 7 * 86400);
    let su = st as i64 - std.ut_offset() as i64;
    let eu = et as i64 - dst.ut_offset() as i64;
    ABS_DT[0].store(su, AO::Relaxed);
    ABS_DT[1].store(eu, AO::Relaxed);
    // rule-day instants of the years base-2 .. base+2: K1 (within the year, shifted by the UTC day time) and K2 (364..371 days apart)
    let s: [i64; 5] = kani::any();
    let e: [i64; 5] = kani::any();
    i = 0;
    while i < 5 {
        kani::assume(j[i] + su <= s[i] && s[i] <= j[i] + 365 * DAY + su);
        kani::assume(j[i] + eu <= e[i] && e[i] <= j[i] + 365 * DAY + eu);
        if i > 0 {
            kani::assume(364 * DAY <= s[i] - s[i - 1] && s[i] - s[i - 1] <= 371 * DAY);
            kani::assume(364 * DAY <= e[i] - e[i - 1] && e[i] - e[i - 1] <= 371 * DAY);
        }
        ABS_S[i].store(s[i], AO::Relaxed);
        ABS_E[i].store(e[i], AO::Relaxed);
        i += 1;
    }
    // the property's quantifier: start/end interleave the same way in every year (what the constructor enforces is C11)
    let mut north = true;
    let mut south = true;
    let mut ties = 0;
    i = 0;
    while i < 5 {
        if !(s[i] <= e[i]) {
            north = false;
        }
        if !(e[i] <= s[i]) {
            south = false;
        }
        if i < 4 {
            if !(e[i] <= s[i + 1]) {
                north = false;
            }
            if !(s[i] <= e[i + 1]) {
                south = false;
            }
        }
        if s[i] == e[i] {
            ties += 1;
        }
        i += 1;
    }
    kani::assume(north || south);
    // known finding F2 (role dst-rule-tie-year): start and end coincide in some but not all of the years consulted
    kani::assume(ties == 0 || ties == 5);
    match pat {
        1 => kani::assume(north && ties == 0),
        2 => kani::assume(south && ties == 0),
        3 => kani::assume(ties == 5),
        _ => {}
    }
    let c: i64 = kani::any();
    kani::assume(j[2] <= c && c < j[3]);
    CIVIL.store(c, AO::Relaxed);
    let alt = crate::timezone::verif_kani::raw_alt(
        std,
        dst,
        RuleDay::Julian1WithoutLeap(Julian1WithoutLeap::new(1).unwrap()),
        st,
        RuleDay::Julian1WithoutLeap(Julian1WithoutLeap::new(2).unwrap()),
        et,
    );
    let types = [std, dst];
    let rule = Some(TransitionRule::Alternate(alt));
    let zone = match TimeZoneRef::new(&[], &types, &[], &rule) {
        Ok(z) => z,
        Err(_) => return,
    };
    let mut buf: [Option<FoundDateTimeKind>; 4] = [None; 4];
    let list = match DateTime::find_n(&mut buf, base, 1, 1, 0, 0, 0, NS, zone) {
        Ok(l) => l,
        Err(_) => {
            assert!(false);
            return;
        }
    };
    let k = list.count();
    assert!(list.is_exhaustive());
    let data = list.data();
    assert!(k >= 1 && k <= 3);
    kani::cover!(k == 1);
    kani::cover!(k == 2);
    let i: usize = kani::any();
    kani::assume(i < k);
    let ei = match &data[i] {
        Some(x) => x,
        None => {
            assert!(false);
            return;
        }
    };
    if c05 {
        if let (FoundDateTimeKind::Normal(dt), true) = (ei, part & 1 != 0) {
            assert!(dt.year == base && dt.month == 1 && dt.month_day == 1 && dt.nanoseconds == NS);
            assert!(dt.unix_time + dt.local_time_type.ut_offset() as i64 == c);
            match zone.find_local_time_type(dt.unix_time) {
                Ok(l) => assert!(l.ut_offset() == dt.local_time_type.ut_offset() && l.is_dst() == dt.local_time_type.is_dst()),
                Err(_) => assert!(false),
            }
        }
        let u: i64 = kani::any();
        kani::assume(j[1] <= u && u < j[4]);
        if let (Ok(l), true) = (zone.find_local_time_type(u), part & 2 != 0) {
            if u + l.ut_offset() as i64 == c {
                let mut found = false;
                let mut q = 0;
                while q < k {
                    if let Some(FoundDateTimeKind::Normal(d)) = &data[q] {
                        if d.unix_time == u {
                            found = true;
                        }
                    }
                    q += 1;
                }
                assert!(found);
            }
        }
        if part & 2 != 0 {
            assert!(list.unique().is_some() == (k == 1 && matches!(&data[0], Some(FoundDateTimeKind::Normal(_)))));
        }
        kani::cover!(matches!(ei, FoundDateTimeKind::Normal(_)) && (pat == 1 || pat == 3 || (south && !north)));
    }
    if c06 {
        if let (FoundDateTimeKind::Skipped { before_transition: b, after_transition: a }, true) = (ei, part & 4 != 0) {
            let t = b.unix_time;
            let (ob, oa) = (b.local_time_type.ut_offset() as i64, a.local_time_type.ut_offset() as i64);
            assert!(a.unix_time == t && ob < oa && t + ob <= c && c < t + oa);
            assert!(matches!(zone.find_local_time_type(t), Ok(l) if l.ut_offset() as i64 == oa));
            assert!(matches!(zone.find_local_time_type(t - 1), Ok(l) if l.ut_offset() as i64 == ob));
        }
        // conversely: a forward jump of the rule (an abstract start/end instant where the offset grows) containing c is reported
        let g: usize = kani::any();
        kani::assume(1 <= g && g <= 3);
        let which: bool = kani::any();
        let t = if which { s[g] } else { e[g] };
        if part & 8 == 0 {
        } else if let (Ok(lb), Ok(la)) = (zone.find_local_time_type(t - 1), zone.find_local_time_type(t)) {
            let (ob, oa) = (lb.ut_offset() as i64, la.ut_offset() as i64);
            if ob < oa && t + ob <= c && c < t + oa {
                let mut found = false;
                let mut q = 0;
                while q < k {
                    if let Some(FoundDateTimeKind::Skipped { before_transition, .. }) = &data[q] {
                        if before_transition.unix_time == t {
                            found = true;
                        }
                    }
                    q += 1;
                }
                assert!(found);
            }
        }
        let first = match &data[0] {
            Some(x) => entry_instant(x),
            None => 0,
        };
        if part & 16 != 0 {
            assert!(matches!(list.earliest(), Some(d) if d.unix_time == first && first <= entry_instant(ei)));
        }
        kani::cover!(pat == 3 || matches!(ei, FoundDateTimeKind::Skipped { .. }));
    }
    let jx: usize = kani::any();
    if part & 32 != 0 && jx < k && i < jx {
        if let Some(ej) = &data[jx] {
            assert!(entry_instant(ei) <= entry_instant(ej));
            if matches!(ei, FoundDateTimeKind::Normal(_)) && matches!(ej, FoundDateTimeKind::Normal(_)) {
                assert!(entry_instant(ei) < entry_instant(ej));
            }
            if ties == 0 {
                assert!(entry_instant(ei) < entry_instant(ej));
            }
        }
    }
}

#[kani::proof]
#[kani::unwind(9)]
#[kani::stub(crate::datetime::unix_time, stub_unix_time)]
#[kani::stub(crate::datetime::UtcDateTime::from_timespec, stub_year_abs)]
#[kani::stub(crate::timezone::RuleDay::unix_time, stub_rule_abs)]
fn c05_rule_abstract() {
    abs_rule_body(true, false);
}

#[kani::proof]
#[kani::unwind(9)]
#[kani::stub(crate::datetime::unix_time, stub_unix_time)]
#[kani::stub(crate::datetime::UtcDateTime::from_timespec, stub_year_abs)]
#[kani::stub(crate::timezone::RuleDay::unix_time, stub_rule_abs)]
fn c06_rule_abstract() {
    abs_rule_body(false, true);
}


macro_rules! rulearm {
    ($name:ident, $c05:expr, $c06:expr, $pat:expr, $part:expr) => {
        #[kani::proof]
        #[kani::unwind(9)]
        #[kani::stub(crate::datetime::unix_time, stub_unix_time)]
        #[kani::stub(crate::datetime::UtcDateTime::from_timespec, stub_year_abs)]
        #[kani::stub(crate::timezone::RuleDay::unix_time, stub_rule_abs)]
        fn $name() {
            abs_rule_body_split($c05, $c06, $pat, $part);
        }
    };
}
// quick-tier split of the two harnesses above: one interleaving pattern and one assertion group per harness
rulearm!(c05_rulearm_north_sound, true, false, 1, 1 | 32);
rulearm!(c05_rulearm_north_complete, true, false, 1, 2);
rulearm!(c05_rulearm_south_sound, true, false, 2, 1 | 32);
rulearm!(c05_rulearm_south_complete, true, false, 2, 2);
rulearm!(c05_rulearm_tied_all, true, false, 3, 1 | 2 | 32);
rulearm!(c06_rulearm_north_reported, false, true, 1, 4 | 16 | 32);
rulearm!(c06_rulearm_north_converse, false, true, 1, 8);
rulearm!(c06_rulearm_south_reported, false, true, 2, 4 | 16 | 32);
rulearm!(c06_rulearm_south_converse, false, true, 2, 8);
rulearm!(c06_rulearm_tied_all, false, true, 3, 4 | 8 | 16 | 32);


// ------------------------------------------------------------------ quick tier: the search's DST-rule arm against the SPECIFICATION of the forward
// lookup (C04: on DST exactly in [S(k), E(k)) for northern rules, [S(k), E(k+1)) for southern ones - decided for the real lookup on the
// real rule-day arithmetic by Engine A) instead of against the real lookup: no year computation, no decision tree, three abstract years.
// Assume-guarantee: search == spec here, lookup == spec in C04, hence search == lookup (which the thorough *_rule_abstract harnesses
// also decide directly). Same contracts K1/K2 on the abstract instants; the same role F2 is excluded (start == end in some years only).
static SP_S: [AtomicI64; 3] = [AtomicI64::new(0), AtomicI64::new(0), AtomicI64::new(0)];
static SP_E: [AtomicI64; 3] = [AtomicI64::new(0), AtomicI64::new(0), AtomicI64::new(0)];

fn stub_rule_spec3(d: &RuleDay, year: i32, dt: i64) -> i64 {
    let k = year as i64 - ABS_BASE.load(AO::Relaxed) as i64 + 1;
    assert!(0 <= k && k < 3);
    let is_start = matches!(d, RuleDay::Julian1WithoutLeap(x) if x.get() == 1);
    assert!(dt == if is_start { ABS_DT[0].load(AO::Relaxed) } else { ABS_DT[1].load(AO::Relaxed) });
    if is_start {
        SP_S[k as usize].load(AO::Relaxed)
    } else {
        SP_E[k as usize].load(AO::Relaxed)
    }
}

/// the C04 specification on three consecutive years of start/end instants, for instants within the middle year +- 2 days
fn spec_is_dst(s: &[i64; 3], e: &[i64; 3], north: bool, u: i64) -> bool {
    if north {
        (s[0] <= u && u < e[0]) || (s[1] <= u && u < e[1]) || (s[2] <= u && u < e[2])
    } else {
        u < e[0] || (s[0] <= u && u < e[1]) || (s[1] <= u && u < e[2]) || s[2] <= u
    }
}

fn rule_spec_body(c05: bool, c06: bool, narrow: bool) {
    let base: i32 = kani::any();
    kani::assume(i32::MIN + 4 <= base && base <= i32::MAX - 4);
    ABS_BASE.store(base, AO::Relaxed);
    // 1 January of the years base-1 .. base+2 (K4: 365 or 366 days each)
    // narrow: the year before the searched one starts at a fixed instant (the search's rule arm compares differences of instants only;
    // range checks at the ends of the supported range are decided by the table harnesses and by the wide variant in the thorough tier)
    let j0: i64 = if narrow { 946684800 } else { kani::any() };
    kani::assume(MIN_T + 800 * DAY <= j0 && j0 <= MAX_T - 2000 * DAY);
    let mut j = [j0; 4];
    let mut i = 1;
    while i < 4 {
        let leap: bool = kani::any();
        j[i] = j[i - 1] + if leap { 366 * DAY } else { 365 * DAY };
        i += 1;
    }
    let std = any_ltt();
    let dst = any_ltt();
    kani::assume(-25 * 3600 < std.ut_offset() && std.ut_offset() < 26 * 3600 && -25 * 3600 < dst.ut_offset() && dst.ut_offset() < 26 * 3600);
    kani::assume(std.ut_offset() != dst.ut_offset());
    let st: i32 = kani::any();
    let et: i32 = kani::any();
    kani::assume(-7 * 86400 < st && st < 7 * 86400 && -7 * 86400 < et && et < 7 * 86400);
    let su = st as i64 - std.ut_offset() as i64;
    let eu = et as i64 - dst.ut_offset() as i64;
    ABS_DT[0].store(su, AO::Relaxed);
    ABS_DT[1].store(eu, AO::Relaxed);
    let s: [i64; 3] = kani::any();
    let e: [i64; 3] = kani::any();
    i = 0;
    while i < 3 {
        kani::assume(j[i] + su <= s[i] && s[i] <= j[i] + 365 * DAY + su);
        kani::assume(j[i] + eu <= e[i] && e[i] <= j[i] + 365 * DAY + eu);
        if i > 0 {
            kani::assume(364 * DAY <= s[i] - s[i - 1] && s[i] - s[i - 1] <= 371 * DAY);
            kani::assume(364 * DAY <= e[i] - e[i - 1] && e[i] - e[i - 1] <= 371 * DAY);
        }
        SP_S[i].store(s[i], AO::Relaxed);
        SP_E[i].store(e[i], AO::Relaxed);
        i += 1;
    }
    let north = s[0] <= e[0] && e[0] <= s[1] && s[1] <= e[1] && e[1] <= s[2] && s[2] <= e[2];
    let south = e[0] <= s[0] && s[0] <= e[1] && e[1] <= s[1] && s[1] <= e[2] && e[2] <= s[2];
    kani::assume(north || south);
    let ties = (s[0] == e[0]) as u8 + (s[1] == e[1]) as u8 + (s[2] == e[2]) as u8;
    // known finding F2 (role dst-rule-tie-year): start and end coincide in some but not all of the years the search consults.
    // Coinciding in all of them: both patterns hold and C04 leaves the type open; the forward lookup reads such rules as northern.
    kani::assume(ties == 0 || ties == 3);
    let c: i64 = kani::any();
    kani::assume(j[1] <= c && c < j[2]);
    CIVIL.store(c, AO::Relaxed);
    let alt = crate::timezone::verif_kani::raw_alt(
        std,
        dst,
        RuleDay::Julian1WithoutLeap(Julian1WithoutLeap::new(1).unwrap()),
        st,
        RuleDay::Julian1WithoutLeap(Julian1WithoutLeap::new(2).unwrap()),
        et,
    );
    let types = [std, dst];
    let rule = Some(TransitionRule::Alternate(alt));
    let zone = match TimeZoneRef::new(&[], &types, &[], &rule) {
        Ok(z) => z,
        Err(_) => return,
    };
    let stale_t = if kani::any() { i64::MIN } else { i64::MAX };
    let stale = DateTime { year: 1, month: 1, month_day: 1, hour: 0, minute: 0, second: 0, local_time_type: std, unix_time: stale_t, nanoseconds: 0 };
    let mut buf: [Option<FoundDateTimeKind>; 5] = [Some(FoundDateTimeKind::Normal(stale)); 5];
    let list = match DateTime::find_n(&mut buf, base, 1, 1, 0, 0, 0, NS, zone) {
        Ok(l) => l,
        Err(_) => {
            assert!(false);
            return;
        }
    };
    let k = list.count();
    assert!(list.is_exhaustive());
    let data = list.data();
    assert!(k >= 1 && k <= 3 && data.len() == k);
    kani::cover!(k == 1);
    kani::cover!(k == 2);
    let off_at = |u: i64| if spec_is_dst(&s, &e, north, u) { dst.ut_offset() as i64 } else { std.ut_offset() as i64 };
    let i: usize = kani::any();
    kani::assume(i < k);
    let ei = match &data[i] {
        Some(x) => x,
        None => {
            assert!(false);
            return;
        }
    };
    if c05 {
        if let FoundDateTimeKind::Normal(dt) = ei {
            assert!(dt.year == base && dt.month == 1 && dt.month_day == 1 && dt.hour == 0 && dt.minute == 0 && dt.second == 0 && dt.nanoseconds == NS);
            assert!(dt.unix_time + dt.local_time_type.ut_offset() as i64 == c);
            let on_dst = spec_is_dst(&s, &e, north, dt.unix_time);
            assert!(dt.local_time_type.ut_offset() == if on_dst { dst.ut_offset() } else { std.ut_offset() });
            assert!(dt.local_time_type.is_dst() == if on_dst { dst.is_dst() } else { std.is_dst() });
        }
        // completeness: both candidate instants (civil count minus either offset) are examined against the specification
        let u = if kani::any() { c - std.ut_offset() as i64 } else { c - dst.ut_offset() as i64 };
        if u + off_at(u) == c {
            let mut found = false;
            let mut q = 0;
            while q < k {
                if let Some(FoundDateTimeKind::Normal(d)) = &data[q] {
                    if d.unix_time == u {
                        found = true;
                    }
                }
                q += 1;
            }
            assert!(found);
        }
        assert!(list.unique().is_some() == (k == 1 && matches!(&data[0], Some(FoundDateTimeKind::Normal(_)))));
        kani::cover!(matches!(ei, FoundDateTimeKind::Normal(_)) && south && !north);
        kani::cover!(matches!(ei, FoundDateTimeKind::Normal(_)) && north && !south && k == 2);
    }
    if c06 {
        if let FoundDateTimeKind::Skipped { before_transition: b, after_transition: a } = ei {
            let t = b.unix_time;
            let (ob, oa) = (b.local_time_type.ut_offset() as i64, a.local_time_type.ut_offset() as i64);
            assert!(a.unix_time == t && ob < oa && t + ob <= c && c < t + oa);
            assert!(b.nanoseconds == NS && a.nanoseconds == NS);
            // the clock really jumps at t, from the before-clock to the after-clock
            assert!(off_at(t - 1) == ob && off_at(t) == oa);
            assert!(packed_is(b, t + ob) && packed_is(a, t + oa));
        }
        // conversely: a forward jump of the rule containing the searched local time is reported
        let g: usize = kani::any();
        kani::assume(g < 3);
        let t = if kani::any() { s[g] } else { e[g] };
        let (ob, oa) = (off_at(t - 1), off_at(t));
        if ob < oa && t + ob <= c && c < t + oa {
            let mut found = false;
            let mut q = 0;
            while q < k {
                if let Some(FoundDateTimeKind::Skipped { before_transition, .. }) = &data[q] {
                    if before_transition.unix_time == t {
                        found = true;
                    }
                }
                q += 1;
            }
            assert!(found);
        }
        let first = match &data[0] {
            Some(x) => entry_instant(x),
            None => 0,
        };
        let last = match &data[k - 1] {
            Some(x) => entry_instant(x),
            None => 0,
        };
        assert!(matches!(list.earliest(), Some(d) if d.unix_time == first && first <= entry_instant(ei)));
        assert!(matches!(list.latest(), Some(d) if d.unix_time == last && last >= entry_instant(ei)));
        kani::cover!(matches!(ei, FoundDateTimeKind::Skipped { .. }));
    }
    let jx: usize = kani::any();
    if jx < k && i < jx {
        if let Some(ej) = &data[jx] {
            assert!(entry_instant(ei) <= entry_instant(ej));
            if matches!(ei, FoundDateTimeKind::Normal(_)) && matches!(ej, FoundDateTimeKind::Normal(_)) {
                assert!(entry_instant(ei) < entry_instant(ej));
            }
            if ties == 0 {
                assert!(entry_instant(ei) < entry_instant(ej));
            }
        }
    }
}

#[kani::proof]
#[kani::unwind(9)]
#[kani::stub(crate::datetime::unix_time, stub_unix_time)]
#[kani::stub(crate::datetime::UtcDateTime::from_timespec, stub_from_timespec)]
#[kani::stub(crate::timezone::RuleDay::unix_time, stub_rule_spec3)]
#[kani::stub(crate::timezone::AlternateTime::find_local_time_type, stub_alt_find)]
fn c05_rulespec_search() {
    rule_spec_body(true, false, true);
}

#[kani::proof]
#[kani::unwind(9)]
#[kani::stub(crate::datetime::unix_time, stub_unix_time)]
#[kani::stub(crate::datetime::UtcDateTime::from_timespec, stub_from_timespec)]
#[kani::stub(crate::timezone::RuleDay::unix_time, stub_rule_spec3)]
#[kani::stub(crate::timezone::AlternateTime::find_local_time_type, stub_alt_find)]
fn c06_rulespec_search() {
    rule_spec_body(false, true, true);
}

#[kani::proof]
#[kani::unwind(9)]
#[kani::stub(crate::datetime::unix_time, stub_unix_time)]
#[kani::stub(crate::datetime::UtcDateTime::from_timespec, stub_from_timespec)]
#[kani::stub(crate::timezone::RuleDay::unix_time, stub_rule_spec3)]
#[kani::stub(crate::timezone::AlternateTime::find_local_time_type, stub_alt_find)]
fn c05_rulespec_wide_search() {
    rule_spec_body(true, false, false);
}

#[kani::proof]
#[kani::unwind(9)]
#[kani::stub(crate::datetime::unix_time, stub_unix_time)]
#[kani::stub(crate::datetime::UtcDateTime::from_timespec, stub_from_timespec)]
#[kani::stub(crate::timezone::RuleDay::unix_time, stub_rule_spec3)]
#[kani::stub(crate::timezone::AlternateTime::find_local_time_type, stub_alt_find)]
fn c06_rulespec_wide_search() {
    rule_spec_body(false, true, false);
}


// ------------------------------------------------------------------ C17, compositional: the generic search can only `push` into its list
// (trait DateTimeList has that single method), so it issues the same push sequence to both list types; this harness decides that for
// EVERY push sequence (<= 4 arbitrary entries) the buffer list is the min(n,k)-prefix view of the allocating list, for every buffer length.
fn any_dt() -> DateTime {
    DateTime {
        year: kani::any(),
        month: kani::any(),
        month_day: kani::any(),
        hour: kani::any(),
        minute: kani::any(),
        second: kani::any(),
        local_time_type: any_ltt(),
        unix_time: kani::any(),
        nanoseconds: kani::any(),
    }
}
fn any_entry() -> FoundDateTimeKind {
    if kani::any() {
        FoundDateTimeKind::Normal(any_dt())
    } else {
        FoundDateTimeKind::Skipped { before_transition: any_dt(), after_transition: any_dt() }
    }
}
fn dt_id(d: Option<DateTime>) -> Option<(i64, u32, i32, i32, u8)> {
    d.map(|d| (d.unix_time, d.nanoseconds, d.local_time_type.ut_offset(), d.year, d.second))
}

#[cfg(feature = "alloc")]
#[kani::proof]
#[kani::unwind(8)]
fn c17_push_sequences() {
    let k: usize = kani::any();
    kani::assume(k <= 4);
    let entries = [any_entry(), any_entry(), any_entry(), any_entry()];
    let sentinel = Some(FoundDateTimeKind::Normal(DateTime { year: 1, month: 1, month_day: 1, hour: 0, minute: 0, second: 0, local_time_type: LocalTimeType::utc(), unix_time: 424242, nanoseconds: 7 }));
    let mut small: [Option<FoundDateTimeKind>; 6] = [sentinel; 6];
    let len: usize = kani::any();
    kani::assume(len <= 6);
    let mut v = FoundDateTimeList::default();
    let w = if len < k { len } else { k };
    {
        let mut l = FoundDateTimeListRefMut::new(&mut small[..len]);
        let mut i = 0;
        while i < k {
            crate::datetime::find::DateTimeList::push(&mut l, entries[i]);
            crate::datetime::find::DateTimeList::push(&mut v, entries[i]);
            i += 1;
        }
        assert!(l.count() == k);
        assert!(l.data().len() == w);
        assert!(l.is_exhaustive() == (len >= k));
        let j: usize = kani::any();
        if j < w {
            assert!(same_entry(&l.data()[j], &Some(entries[j])));
        }
        if l.is_exhaustive() {
            assert!(dt_id(l.unique()) == dt_id(v.unique()));
            assert!(dt_id(l.earliest()) == dt_id(v.earliest()));
            assert!(dt_id(l.latest()) == dt_id(v.latest()));
        }
        kani::cover!(len < k);
        kani::cover!(len > k && k == 1);
        kani::cover!(len == 0 && k == 2);
    }
    // slots beyond the reported ones are untouched
    let j: usize = kani::any();
    if w <= j && j < 6 {
        assert!(same_entry(&small[j], &sentinel));
    }
    // the allocating list is the plain sequence
    let inner = v.into_inner();
    assert!(inner.len() == k);
    let q: usize = kani::any();
    if q < k {
        assert!(same_entry(&Some(inner[q]), &Some(entries[q])));
    }
    core::mem::forget(inner);
}
