//! Kani helpers (overlay only, `cfg(kani)`): child module of `timezone::rule`, so `AlternateTime` can be built field by field.
#![allow(dead_code, unused_imports, missing_docs, clippy::all)]
use super::*;

/// an `AlternateTime` WITHOUT the constructor's consistency analysis: used by harnesses that abstract the rule-day instants and
/// assume the interleaving pattern themselves (the constructor is C11's subject)
pub(crate) fn raw_alt(std: LocalTimeType, dst: LocalTimeType, dst_start: RuleDay, dst_start_time: i32, dst_end: RuleDay, dst_end_time: i32) -> AlternateTime {
    AlternateTime { std, dst, dst_start, dst_start_time, dst_end, dst_end_time }
}

/// `RuleDay::unix_time` spelled out from its two real parts (real `transition_date`, real `days_since_unix_epoch`): used by stubs that
/// make the year concrete by a case split, so that the per-year calendar arithmetic constant-folds (C04 layer 1 decides that the real
/// `RuleDay::unix_time` equals the notation's day for every year, which is what both spellings compute)
pub(crate) fn unix_time_from_parts(d: &RuleDay, year: i32, day_time_in_utc: i64) -> i64 {
    let (month, month_day) = d.transition_date(year);
    days_since_unix_epoch(year, month, month_day) * SECONDS_PER_DAY + day_time_in_utc
}
