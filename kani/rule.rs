//! Kani helpers (overlay only, `cfg(kani)`): child module of `timezone::rule`, so `AlternateTime` can be built field by field.
#![allow(dead_code, unused_imports, missing_docs, clippy::all)]
use super::*;

/// an `AlternateTime` WITHOUT the constructor's consistency analysis: used by harnesses that abstract the rule-day instants and
/// assume the interleaving pattern themselves (the constructor is C11's subject)
pub(crate) fn raw_alt(std: LocalTimeType, dst: LocalTimeType, dst_start: RuleDay, dst_start_time: i32, dst_end: RuleDay, dst_end_time: i32) -> AlternateTime {
    AlternateTime { std, dst, dst_start, dst_start_time, dst_end, dst_end_time }
}
