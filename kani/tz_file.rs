//! Kani proof harnesses (overlay only, `cfg(kani)`): child module of `parse::tz_file`. C08 unit contracts + composition, C07 for the decoder.
#![allow(dead_code, unused_imports, missing_docs, clippy::all)]
use super::*;
use crate::error::parse::ParseDataError;
use crate::error::timezone::LocalTimeTypeError;
use crate::timezone::TimeZoneRef;
use core::sync::atomic::{AtomicU8, AtomicUsize, Ordering as AO};

fn be32(b: &[u8], o: usize) -> u32 {
    u32::from_be_bytes([b[o], b[o + 1], b[o + 2], b[o + 3]])
}

// ------------------------------------------------------------------ unit 1: header
#[kani::proof]
#[kani::unwind(6)]
fn c08_header() {
    let buf: [u8; 46] = kani::any();
    let len: usize = kani::any();
    kani::assume(len <= 46);
    let mut cursor: &[u8] = &buf[..len];
    let r = parse_header(&mut cursor);
    let eof = |r: &Result<Header, TzFileError>| matches!(r, Err(TzFileError::ParseData(ParseDataError::UnexpectedEof)));
    if len < 4 {
        assert!(eof(&r));
    } else if !(buf[0] == b'T' && buf[1] == b'Z' && buf[2] == b'i' && buf[3] == b'f') {
        assert!(matches!(&r, Err(TzFileError::InvalidMagicNumber)));
    } else if len < 5 {
        assert!(eof(&r));
    } else if !(buf[4] == 0 || buf[4] == b'2' || buf[4] == b'3') {
        assert!(matches!(&r, Err(TzFileError::UnsupportedTzFileVersion)));
    } else if len < 44 {
        assert!(eof(&r));
    } else {
        // RFC 8536 order: isutcnt, isstdcnt, leapcnt, timecnt, typecnt, charcnt at offsets 20..44
        let (isut, isstd, leap, time, typ, chr) = (be32(&buf, 20), be32(&buf, 24), be32(&buf, 28), be32(&buf, 32), be32(&buf, 36), be32(&buf, 40));
        let valid = typ != 0 && chr != 0 && (isut == 0 || isut == typ) && (isstd == 0 || isstd == typ);
        if !valid {
            assert!(matches!(&r, Err(TzFileError::InvalidHeader)));
        } else {
            match &r {
                Ok(h) => {
                    assert!(h.version == if buf[4] == 0 { Version::V1 } else if buf[4] == b'2' { Version::V2 } else { Version::V3 });
                    assert!(h.ut_local_count == isut as usize && h.std_wall_count == isstd as usize && h.leap_count == leap as usize);
                    assert!(h.transition_count == time as usize && h.type_count == typ as usize && h.char_count == chr as usize);
                    assert!(cursor.len() == len - 44);
                    assert!(len == 44 || core::ptr::eq(&cursor[0], &buf[44]));
                }
                Err(_) => assert!(false),
            }
            kani::cover!(buf[4] == b'3' && isut != 0 && isstd == 0);
        }
    }
    kani::cover!(r.is_ok());
    kani::cover!(matches!(&r, Err(TzFileError::InvalidHeader)));
}

// ------------------------------------------------------------------ unit 2: block layout
fn any_header() -> Header {
    let v: u8 = kani::any();
    kani::assume(v < 3);
    let c: [u32; 6] = kani::any();
    Header {
        version: if v == 0 { Version::V1 } else if v == 1 { Version::V2 } else { Version::V3 },
        ut_local_count: c[0] as usize,
        std_wall_count: c[1] as usize,
        leap_count: c[2] as usize,
        transition_count: c[3] as usize,
        type_count: c[4] as usize,
        char_count: c[5] as usize,
    }
}

fn layout_body<const T: usize>() {
    let buf = [0u8; 96];
    let len: usize = kani::any();
    kani::assume(len <= 96);
    let h = any_header();
    let mut cursor: &[u8] = &buf[..len];
    let r = read_data_blocks::<T>(&mut cursor, &h);
    let sizes: [u128; 7] = [
        h.transition_count as u128 * T as u128,
        h.transition_count as u128,
        h.type_count as u128 * 6,
        h.char_count as u128,
        h.leap_count as u128 * (T as u128 + 4),
        h.std_wall_count as u128,
        h.ut_local_count as u128,
    ];
    let total: u128 = sizes[0] + sizes[1] + sizes[2] + sizes[3] + sizes[4] + sizes[5] + sizes[6];
    match &r {
        Ok(b) => {
            assert!(total <= len as u128);
            let parts: [&[u8]; 7] = [b.transition_times, b.transition_types, b.local_time_types, b.time_zone_designations, b.leap_seconds, b.std_walls, b.ut_locals];
            let base = buf.as_ptr() as usize;
            let mut off: usize = 0;
            let mut i = 0;
            while i < 7 {
                assert!(parts[i].len() as u128 == sizes[i]);
                // adjacent, in RFC order
                assert!(parts[i].as_ptr() as usize == base + off);
                off += parts[i].len();
                i += 1;
            }
            assert!(cursor.len() == len - off);
            // allocation bound used by C07: every count that sizes a Vec::with_capacity is <= the bytes actually present
            assert!(h.transition_count <= len && h.type_count <= len && h.leap_count <= len);
        }
        Err(e) => {
            assert!(total > len as u128);
            assert!(matches!(e, TzFileError::ParseData(ParseDataError::UnexpectedEof)));
        }
    }
    kani::cover!(r.is_ok() && h.leap_count == 1 && h.transition_count == 2 && h.std_wall_count == 1);
    kani::cover!(r.is_err() && h.char_count == u32::MAX as usize);
}

#[kani::proof]
#[kani::unwind(9)]
fn c08_layout_v1_blocks() {
    layout_body::<4>();
}

#[kani::proof]
#[kani::unwind(9)]
fn c08_layout_v2_blocks() {
    layout_body::<8>();
}

// ------------------------------------------------------------------ unit 3: record decoding (minimal shapes), footer = None
fn ascii_upper(b: u8) -> bool {
    b'A' <= b && b <= b'Z'
}

/// shape (time,type,char,leap,isstd,isut) = (1,1,4,0,0,0)
fn parse_min_body<const T: usize, const C: usize>()
where
    for<'a> DataBlocks<'a, T>: ParseTime<TimeData = [u8; T]>,
{
    let times: [u8; T] = kani::any();
    let tidx: [u8; 1] = kani::any();
    let ltt: [u8; 6] = kani::any();
    let chars: [u8; C] = kani::any();
    let mut q = 0;
    while q < C {
        kani::assume(chars[q] == 0 || ascii_upper(chars[q]));
        q += 1;
    }
    let blocks: DataBlocks<'_, T> =
        DataBlocks { transition_times: &times, transition_types: &tidx, local_time_types: &ltt, time_zone_designations: &chars, leap_seconds: &[], std_walls: &[], ut_locals: &[] };
    let h = Header { version: Version::V1, ut_local_count: 0, std_wall_count: 0, leap_count: 0, transition_count: 1, type_count: 1, char_count: C };
    let r = blocks.parse(&h, None);
    // reference decoding (RFC 8536 3.2)
    let mut t: i64 = if times[0] >= 0x80 { -1 } else { 0 };
    let mut i = 0;
    while i < T {
        t = (t << 8) | times[i] as i64;
        i += 1;
    }
    let off = i32::from_be_bytes([ltt[0], ltt[1], ltt[2], ltt[3]]);
    let ci = ltt[5] as usize;
    let mut end: Option<usize> = None;
    let mut j = ci;
    while j < C {
        if chars[j] == 0 && end.is_none() {
            end = Some(j);
        }
        j += 1;
    }
    if ltt[4] > 1 {
        assert!(matches!(&r, Err(TzError::TzFile(TzFileError::InvalidDstIndicator))));
    } else if ci >= C || end.is_none() {
        assert!(matches!(&r, Err(TzError::TzFile(TzFileError::InvalidTimeZoneDesignationCharIndex))));
    } else {
        let e = end.unwrap();
        let name: Option<&[u8]> = if e == ci { None } else { Some(&chars[ci..e]) };
        match LocalTimeType::new(off, ltt[4] == 1, name) {
            Err(_) => {
                assert!(matches!(&r, Err(TzError::LocalTimeType(_))));
                if C >= 9 {
                    kani::cover!(e == ci + 8);
                }
            }
            Ok(l) => {
                let exp = TimeZoneRef::new(&[Transition::new(t, tidx[0] as usize)], &[l], &[], &None).map(|_| ());
                match (&r, &exp) {
                    (Ok(z), Ok(())) => {
                        let zr = z.as_ref();
                        assert!(zr.transitions().len() == 1 && zr.transitions()[0] == Transition::new(t, tidx[0] as usize));
                        assert!(zr.local_time_types().len() == 1 && zr.local_time_types()[0] == l);
                        assert!(zr.leap_seconds().is_empty() && zr.extra_rule().is_none());
                    }
                    (Err(a), Err(b)) => assert!(core::mem::discriminant(a) == core::mem::discriminant(b)),
                    _ => assert!(false),
                }
                kani::cover!(r.is_ok() && e == ci + 3 && t < 0);
                if C >= 8 {
                    kani::cover!(r.is_ok() && e == ci + 7);
                }
            }
        }
    }
    kani::cover!(matches!(&r, Err(TzError::TzFile(TzFileError::InvalidTimeZoneDesignationCharIndex))));
    core::mem::forget(r);
}

#[kani::proof]
#[kani::unwind(10)]
fn c08_records_min_v1() {
    parse_min_body::<4, 4>();
}

#[kani::proof]
#[kani::unwind(10)]
fn c08_records_min_v2() {
    parse_min_body::<8, 4>();
}

/// same shape with a 10-byte designation table: every designation length 0..9 at every index (7 is the longest legal one, 8 and 9 are
/// refused by LocalTimeType::new), unterminated strings, indices beyond the table
#[kani::proof]
#[kani::unwind(13)]
fn c08_records_designation_lengths_v2() {
    parse_min_body::<8, 10>();
}

/// shape (2,2,8,0,0,0), 64-bit block: two transitions, two types whose designations may overlap (shared suffix / same string)
#[kani::proof]
#[kani::unwind(14)]
fn c08_records_two_v2() {
    let times: [u8; 16] = kani::any();
    let tidx: [u8; 2] = kani::any();
    let ltt: [u8; 12] = kani::any();
    let chars: [u8; 8] = [b'A', b'B', b'C', b'D', 0, b'X', b'Y', 0];
    let blocks: DataBlocks<'_, 8> =
        DataBlocks { transition_times: &times, transition_types: &tidx, local_time_types: &ltt, time_zone_designations: &chars, leap_seconds: &[], std_walls: &[], ut_locals: &[] };
    let h = Header { version: Version::V2, ut_local_count: 0, std_wall_count: 0, leap_count: 0, transition_count: 2, type_count: 2, char_count: 8 };
    let r = blocks.parse(&h, None);
    let t0 = i64::from_be_bytes([times[0], times[1], times[2], times[3], times[4], times[5], times[6], times[7]]);
    let t1 = i64::from_be_bytes([times[8], times[9], times[10], times[11], times[12], times[13], times[14], times[15]]);
    let mut types: [Option<LocalTimeType>; 2] = [None, None];
    let mut bad: u8 = 0; // 1 dst indicator, 2 char index, 3 local time type error
    let mut k = 0;
    while k < 2 {
        let o = 6 * k;
        let off = i32::from_be_bytes([ltt[o], ltt[o + 1], ltt[o + 2], ltt[o + 3]]);
        let ci = ltt[o + 5] as usize;
        if bad == 0 {
            if ltt[o + 4] > 1 {
                bad = 1;
            } else if ci >= 8 {
                bad = 2;
            } else {
                // NUL-terminated string starting at ci (the table above has NULs at 4 and 7)
                let end = if ci <= 4 { 4 } else { 7 };
                let name: Option<&[u8]> = if end == ci { None } else { Some(&chars[ci..end]) };
                match LocalTimeType::new(off, ltt[o + 4] == 1, name) {
                    Ok(l) => types[k] = Some(l),
                    Err(_) => bad = 3,
                }
            }
        }
        k += 1;
    }
    match bad {
        1 => assert!(matches!(&r, Err(TzError::TzFile(TzFileError::InvalidDstIndicator)))),
        2 => assert!(matches!(&r, Err(TzError::TzFile(TzFileError::InvalidTimeZoneDesignationCharIndex)))),
        3 => assert!(matches!(&r, Err(TzError::LocalTimeType(_)))),
        _ => {
            let ty = [types[0].unwrap(), types[1].unwrap()];
            let tr = [Transition::new(t0, tidx[0] as usize), Transition::new(t1, tidx[1] as usize)];
            let exp = TimeZoneRef::new(&tr, &ty, &[], &None).map(|_| ());
            match (&r, &exp) {
                (Ok(z), Ok(())) => {
                    let zr = z.as_ref();
                    assert!(zr.transitions().len() == 2 && zr.transitions()[0] == tr[0] && zr.transitions()[1] == tr[1]);
                    assert!(zr.local_time_types().len() == 2 && zr.local_time_types()[0] == ty[0] && zr.local_time_types()[1] == ty[1]);
                }
                (Err(a), Err(b)) => assert!(core::mem::discriminant(a) == core::mem::discriminant(b)),
                _ => assert!(false),
            }
            kani::cover!(r.is_ok() && ltt[5] == 1 && ltt[11] == 0);
        }
    }
    kani::cover!(bad == 3);
    core::mem::forget(r);
}

/// shape (1,1,4,1,1,1): one leap record and both indicator blocks
#[kani::proof]
#[kani::unwind(14)]
fn c08_records_leap_indicators_v2() {
    let times: [u8; 8] = [0, 0, 0, 0, 0, 0, 0, 5];
    let tidx: [u8; 1] = [0];
    let ltt: [u8; 6] = [0, 0, 0, 0, 0, 0];
    let chars: [u8; 4] = [b'U', b'T', b'C', 0];
    let leap: [u8; 12] = kani::any();
    let sw: [u8; 1] = kani::any();
    let ul: [u8; 1] = kani::any();
    // each indicator block is either absent (count 0: every indicator is implied 0) or has one entry per type (RFC 8536 3.2)
    let sw_present: bool = kani::any();
    let ul_present: bool = kani::any();
    let swb: &[u8] = if sw_present { &sw } else { &[] };
    let ulb: &[u8] = if ul_present { &ul } else { &[] };
    let blocks: DataBlocks<'_, 8> =
        DataBlocks { transition_times: &times, transition_types: &tidx, local_time_types: &ltt, time_zone_designations: &chars, leap_seconds: &leap, std_walls: swb, ut_locals: ulb };
    let h = Header { version: Version::V2, ut_local_count: ul_present as usize, std_wall_count: sw_present as usize, leap_count: 1, transition_count: 1, type_count: 1, char_count: 4 };
    let r = blocks.parse(&h, None);
    let lt = i64::from_be_bytes([leap[0], leap[1], leap[2], leap[3], leap[4], leap[5], leap[6], leap[7]]);
    let lc = i32::from_be_bytes([leap[8], leap[9], leap[10], leap[11]]);
    let (isstd, isut) = (if sw_present { sw[0] } else { 0 }, if ul_present { ul[0] } else { 0 });
    let pair_ok = (isstd == 0 && isut == 0) || (isstd == 1 && isut == 0) || (isstd == 1 && isut == 1);
    if !pair_ok {
        assert!(matches!(&r, Err(TzError::TzFile(TzFileError::InvalidStdWallUtLocal))));
    } else {
        let l = LocalTimeType::new(0, false, Some(b"UTC")).unwrap();
        let exp = TimeZoneRef::new(&[Transition::new(5, 0)], &[l], &[LeapSecond::new(lt, lc)], &None).map(|_| ());
        match (&r, &exp) {
            (Ok(z), Ok(())) => assert!(z.as_ref().leap_seconds().len() == 1 && z.as_ref().leap_seconds()[0] == LeapSecond::new(lt, lc)),
            (Err(a), Err(b)) => assert!(core::mem::discriminant(a) == core::mem::discriminant(b)),
            _ => assert!(false),
        }
    }
    kani::cover!(r.is_ok());
    kani::cover!(!pair_ok && !sw_present && ul_present);
    kani::cover!(!pair_ok && sw_present && ul_present);
    core::mem::forget(r);
}

// ------------------------------------------------------------------ unit 4: footer framing (parse_posix_tz abstracted)
static FT_CALLS: AtomicUsize = AtomicUsize::new(0);
static FT_LEN: AtomicUsize = AtomicUsize::new(0);
static FT_FIRST: AtomicU8 = AtomicU8::new(0);
static FT_LAST: AtomicU8 = AtomicU8::new(0);
static FT_EXT: AtomicU8 = AtomicU8::new(0);
static FT_RET: AtomicU8 = AtomicU8::new(0);
fn stub_parse_posix_tz(tz_string: &[u8], use_string_extensions: bool) -> Result<TransitionRule, TzError> {
    FT_CALLS.fetch_add(1, AO::Relaxed);
    FT_LEN.store(tz_string.len(), AO::Relaxed);
    if !tz_string.is_empty() {
        FT_FIRST.store(tz_string[0], AO::Relaxed);
        FT_LAST.store(tz_string[tz_string.len() - 1], AO::Relaxed);
    }
    FT_EXT.store(use_string_extensions as u8, AO::Relaxed);
    if FT_RET.load(AO::Relaxed) == 0 {
        Ok(TransitionRule::Fixed(LocalTimeType::utc()))
    } else {
        Err(TzError::TzString(crate::error::parse::TzStringError::RemainingData))
    }
}
fn is_ws(b: u8) -> bool {
    b == b' ' || b == b'\t' || b == b'\n' || b == 0x0c || b == b'\r'
}

#[kani::proof]
#[kani::unwind(9)]
#[kani::stub(crate::parse::tz_string::parse_posix_tz, stub_parse_posix_tz)]
fn c08_footer_framing() {
    let buf: [u8; 6] = kani::any();
    let len: usize = kani::any();
    kani::assume(len <= 6);
    let ext: bool = kani::any();
    let ret: u8 = kani::any();
    kani::assume(ret <= 1);
    FT_RET.store(ret, AO::Relaxed);
    let f = &buf[..len];
    let r = parse_footer(f, ext);
    let mut ascii = true;
    let mut i = 0;
    while i < len {
        if buf[i] >= 0x80 {
            ascii = false;
        }
        i += 1;
    }
    if !ascii {
        // non-ASCII input is either invalid UTF-8 (Utf8 error) or handled like any other text; only the ASCII case is specified here
        return;
    }
    let framed = len >= 1 && buf[0] == b'\n' && buf[len - 1] == b'\n';
    if !framed {
        assert!(matches!(&r, Err(TzError::TzFile(TzFileError::InvalidFooter))));
        assert!(FT_CALLS.load(AO::Relaxed) == 0);
        return;
    }
    let mut a = 0;
    while a < len && is_ws(buf[a]) {
        a += 1;
    }
    let mut b = len;
    while b > a && is_ws(buf[b - 1]) {
        b -= 1;
    }
    let mut has_nul = false;
    let mut k = a;
    while k < b {
        if buf[k] == 0 {
            has_nul = true;
        }
        k += 1;
    }
    if a < b && (buf[a] == b':' || has_nul) {
        assert!(matches!(&r, Err(TzError::TzFile(TzFileError::InvalidFooter))));
        assert!(FT_CALLS.load(AO::Relaxed) == 0);
    } else if a == b {
        assert!(matches!(&r, Ok(None)));
        assert!(FT_CALLS.load(AO::Relaxed) == 0);
    } else {
        // exactly the trimmed bytes and the extension flag are handed to the TZ string decoder, its verdict is returned
        assert!(FT_CALLS.load(AO::Relaxed) == 1);
        assert!(FT_LEN.load(AO::Relaxed) == b - a && FT_FIRST.load(AO::Relaxed) == buf[a] && FT_LAST.load(AO::Relaxed) == buf[b - 1]);
        assert!((FT_EXT.load(AO::Relaxed) == 1) == ext);
        if ret == 0 {
            assert!(matches!(&r, Ok(Some(TransitionRule::Fixed(_)))));
        } else {
            assert!(matches!(&r, Err(TzError::TzString(_))));
        }
        kani::cover!(b - a == 3 && ext);
    }
    kani::cover!(matches!(&r, Ok(None)) && len == 2);
}

// ------------------------------------------------------------------ composition: parse_tz_file with record decoding abstracted
static P_CALLS: AtomicUsize = AtomicUsize::new(0);
static P_T: AtomicUsize = AtomicUsize::new(0);
static P_HDR: [AtomicUsize; 7] = [AtomicUsize::new(0), AtomicUsize::new(0), AtomicUsize::new(0), AtomicUsize::new(0), AtomicUsize::new(0), AtomicUsize::new(0), AtomicUsize::new(0)];
static P_FIRST_BLOCK: AtomicUsize = AtomicUsize::new(0);
static P_FOOTER: [AtomicUsize; 3] = [AtomicUsize::new(0), AtomicUsize::new(0), AtomicUsize::new(0)];
static P_RET: AtomicU8 = AtomicU8::new(0);

fn stub_parse<'a, const TIME_SIZE: usize>(this: &DataBlocks<'a, TIME_SIZE>, header: &Header, footer: Option<&[u8]>) -> Result<TimeZone, TzError>
where
    DataBlocks<'a, TIME_SIZE>: ParseTime<TimeData = [u8; TIME_SIZE]>,
{
    P_CALLS.fetch_add(1, AO::Relaxed);
    P_T.store(TIME_SIZE, AO::Relaxed);
    P_HDR[0].store(match header.version { Version::V1 => 1, Version::V2 => 2, Version::V3 => 3 }, AO::Relaxed);
    P_HDR[1].store(header.ut_local_count, AO::Relaxed);
    P_HDR[2].store(header.std_wall_count, AO::Relaxed);
    P_HDR[3].store(header.leap_count, AO::Relaxed);
    P_HDR[4].store(header.transition_count, AO::Relaxed);
    P_HDR[5].store(header.type_count, AO::Relaxed);
    P_HDR[6].store(header.char_count, AO::Relaxed);
    P_FIRST_BLOCK.store(this.transition_times.as_ptr() as usize, AO::Relaxed);
    match footer {
        None => P_FOOTER[0].store(0, AO::Relaxed),
        Some(f) => {
            P_FOOTER[0].store(1, AO::Relaxed);
            P_FOOTER[1].store(f.as_ptr() as usize, AO::Relaxed);
            P_FOOTER[2].store(f.len(), AO::Relaxed);
        }
    }
    if P_RET.load(AO::Relaxed) == 0 {
        Ok(TimeZone::utc())
    } else {
        Err(TzError::TzFile(TzFileError::InvalidDstIndicator))
    }
}

fn block_size(b: &[u8], h: usize, t: u128) -> u128 {
    let (isut, isstd, leap, time, typ, chr) = (be32(b, h + 20) as u128, be32(b, h + 24) as u128, be32(b, h + 28) as u128, be32(b, h + 32) as u128, be32(b, h + 36) as u128, be32(b, h + 40) as u128);
    time * t + time + typ * 6 + chr + leap * (t + 4) + isstd + isut
}
fn header_ok(b: &[u8], h: usize) -> bool {
    let (isut, isstd, typ, chr) = (be32(b, h + 20), be32(b, h + 24), be32(b, h + 36), be32(b, h + 40));
    b[h] == b'T' && b[h + 1] == b'Z' && b[h + 2] == b'i' && b[h + 3] == b'f' && (b[h + 4] == 0 || b[h + 4] == b'2' || b[h + 4] == b'3') && typ != 0 && chr != 0 && (isut == 0 || isut == typ) && (isstd == 0 || isstd == typ)
}

const FILE_MAX: usize = 112;

#[kani::proof]
#[kani::unwind(8)]
#[kani::stub(crate::parse::tz_file::DataBlocks::parse, stub_parse)]
fn c08_file_composition() {
    let mut buf: [u8; FILE_MAX] = kani::any();
    // keep the two headers' high count bytes zero so that the interesting (fitting) region is reachable quickly; low bytes arbitrary
    let len: usize = kani::any();
    kani::assume(len <= FILE_MAX);
    let ret: u8 = kani::any();
    kani::assume(ret <= 1);
    P_RET.store(ret, AO::Relaxed);
    buf[0] = b'T';
    buf[1] = b'Z';
    buf[2] = b'i';
    buf[3] = b'f';
    let r = parse_tz_file(&buf[..len]);
    let base = buf.as_ptr() as usize;
    if len >= 44 && header_ok(&buf, 0) {
        let s1 = block_size(&buf, 0, 4);
        if buf[4] == 0 {
            // version 1: one header, 4-byte block, nothing may follow
            if 44 + s1 > len as u128 {
                assert!(matches!(&r, Err(TzError::TzFile(TzFileError::ParseData(_)))));
            } else if 44 + s1 < len as u128 {
                assert!(matches!(&r, Err(TzError::TzFile(TzFileError::RemainingDataV1))));
                assert!(P_CALLS.load(AO::Relaxed) == 0);
            } else {
                assert!(P_CALLS.load(AO::Relaxed) == 1 && P_T.load(AO::Relaxed) == 4 && P_FOOTER[0].load(AO::Relaxed) == 0);
                assert!(P_HDR[0].load(AO::Relaxed) == 1 && P_HDR[4].load(AO::Relaxed) == be32(&buf, 32) as usize && P_HDR[5].load(AO::Relaxed) == be32(&buf, 36) as usize);
                assert!(P_FIRST_BLOCK.load(AO::Relaxed) == base + 44);
                assert!(r.is_ok() == (ret == 0));
                kani::cover!(r.is_ok());
            }
        } else {
            // version 2/3: the 4-byte block is skipped using the FIRST header, then a second header and the 8-byte block
            let h2 = 44 + s1;
            if h2 + 44 > len as u128 {
                assert!(r.is_err() && P_CALLS.load(AO::Relaxed) == 0);
            } else {
                let h2 = h2 as usize;
                if header_ok(&buf, h2) {
                    let s2 = block_size(&buf, h2, 8);
                    if (h2 + 44) as u128 + s2 > len as u128 {
                        assert!(matches!(&r, Err(TzError::TzFile(TzFileError::ParseData(_)))));
                    } else {
                        let fo = h2 + 44 + s2 as usize;
                        assert!(P_CALLS.load(AO::Relaxed) == 1 && P_T.load(AO::Relaxed) == 8);
                        // the SECOND header governs the 8-byte block and the extension flag
                        assert!(P_HDR[0].load(AO::Relaxed) == if buf[h2 + 4] == 0 { 1 } else if buf[h2 + 4] == b'2' { 2 } else { 3 });
                        assert!(P_HDR[4].load(AO::Relaxed) == be32(&buf, h2 + 32) as usize && P_HDR[5].load(AO::Relaxed) == be32(&buf, h2 + 36) as usize && P_HDR[3].load(AO::Relaxed) == be32(&buf, h2 + 28) as usize);
                        assert!(P_FIRST_BLOCK.load(AO::Relaxed) == base + h2 + 44);
                        // everything after the 8-byte block is the footer
                        assert!(P_FOOTER[0].load(AO::Relaxed) == 1 && P_FOOTER[1].load(AO::Relaxed) == base + fo && P_FOOTER[2].load(AO::Relaxed) == len - fo);
                        assert!(r.is_ok() == (ret == 0));
                        kani::cover!(r.is_ok() && len > fo);
                        kani::cover!(r.is_ok() && buf[h2 + 4] == b'3' && buf[4] == b'2');
                    }
                } else {
                    assert!(r.is_err() && P_CALLS.load(AO::Relaxed) == 0);
                }
            }
        }
    } else {
        assert!(r.is_err() && P_CALLS.load(AO::Relaxed) == 0);
    }
    core::mem::forget(r);
}

/// the extension flag handed to the footer decoder is "the header given to parse() says version 3"
static F2_CALLS: AtomicUsize = AtomicUsize::new(0);
static F2_EXT: AtomicU8 = AtomicU8::new(0);
static F2_PTR: AtomicUsize = AtomicUsize::new(0);
fn stub_parse_footer(footer: &[u8], use_string_extensions: bool) -> Result<Option<TransitionRule>, TzError> {
    F2_CALLS.fetch_add(1, AO::Relaxed);
    F2_EXT.store(use_string_extensions as u8, AO::Relaxed);
    F2_PTR.store(footer.as_ptr() as usize + footer.len(), AO::Relaxed);
    Ok(None)
}

#[kani::proof]
#[kani::unwind(10)]
#[kani::stub(crate::parse::tz_file::parse_footer, stub_parse_footer)]
fn c08_extension_flag_is_version3() {
    let ltt: [u8; 6] = [0, 0, 0, 0, 0, 0];
    let chars: [u8; 4] = [b'U', b'T', b'C', 0];
    let blocks: DataBlocks<'_, 8> = DataBlocks { transition_times: &[], transition_types: &[], local_time_types: &ltt, time_zone_designations: &chars, leap_seconds: &[], std_walls: &[], ut_locals: &[] };
    let v: u8 = kani::any();
    kani::assume(v < 3);
    let h = Header { version: if v == 0 { Version::V1 } else if v == 1 { Version::V2 } else { Version::V3 }, ut_local_count: 0, std_wall_count: 0, leap_count: 0, transition_count: 0, type_count: 1, char_count: 4 };
    let footer: [u8; 3] = kani::any();
    let has: bool = kani::any();
    let r = blocks.parse(&h, if has { Some(&footer) } else { None });
    assert!(F2_CALLS.load(AO::Relaxed) == has as usize);
    if has {
        assert!((F2_EXT.load(AO::Relaxed) == 1) == (v == 2));
        assert!(F2_PTR.load(AO::Relaxed) == footer.as_ptr() as usize + 3);
    }
    assert!(r.is_ok());
    core::mem::forget(r);
}
