//! Kani proof harnesses (overlay only, `cfg(kani)`): child module of `parse::tz_string`. C09 sub-parser contracts + composition.
#![allow(dead_code, unused_imports, missing_docs, clippy::all)]
use super::*;
use crate::error::timezone::TransitionRuleError;
use core::sync::atomic::{AtomicI32, AtomicU8, AtomicUsize, Ordering as AO};

/// S_utf8: ASCII input is valid UTF-8 (the harness asserts the precondition). One `unsafe` expression: the scratch overlay
/// built for these harnesses rewrites the crate attribute forbid(unsafe_code) to deny(unsafe_code); lints do not affect codegen.
#[allow(unsafe_code)]
fn stub_from_utf8(v: &[u8]) -> Result<&str, core::str::Utf8Error> {
    let mut i = 0;
    while i < v.len() {
        assert!(v[i] < 0x80);
        i += 1;
    }
    Ok(unsafe { core::str::from_utf8_unchecked(v) })
}

fn any_ascii<const L: usize>() -> ([u8; L], usize) {
    let buf: [u8; L] = kani::any();
    let mut i = 0;
    while i < L {
        kani::assume(buf[i] < 0x80);
        i += 1;
    }
    let len: usize = kani::any();
    kani::assume(len <= L);
    (buf, len)
}

// ------------------------------------------------------------------ reference recogniser (written from the POSIX / RFC 8536 grammar)
fn r_digits(b: &[u8], pos: &mut usize) -> Option<i64> {
    let start = *pos;
    let mut v: i64 = 0;
    while *pos < b.len() && b[*pos] >= b'0' && b[*pos] <= b'9' {
        v = v * 10 + (b[*pos] - b'0') as i64;
        *pos += 1;
    }
    if *pos == start {
        None
    } else {
        Some(v)
    }
}
fn r_hhmmss(b: &[u8], pos: &mut usize) -> Option<(i64, i64, i64)> {
    let h = r_digits(b, pos)?;
    let mut m = 0;
    let mut s = 0;
    if *pos < b.len() && b[*pos] == b':' {
        *pos += 1;
        m = r_digits(b, pos)?;
        if *pos < b.len() && b[*pos] == b':' {
            *pos += 1;
            s = r_digits(b, pos)?;
        }
    }
    Some((h, m, s))
}
fn r_sign(b: &[u8], pos: &mut usize) -> i64 {
    if *pos < b.len() && (b[*pos] == b'+' || b[*pos] == b'-') {
        *pos += 1;
        if b[*pos - 1] == b'-' {
            return -1;
        }
    }
    1
}
/// offset: [+-]hh[:mm[:ss]], hh 0..24, mm/ss 0..59; value in seconds, sign applied to the whole
fn r_offset(b: &[u8], pos: &mut usize) -> Option<i64> {
    let sg = r_sign(b, pos);
    let (h, m, s) = r_hhmmss(b, pos)?;
    if h > 24 || m > 59 || s > 59 {
        return None;
    }
    Some(sg * (h * 3600 + m * 60 + s))
}
/// rule time: POSIX hh[:mm[:ss]] with hh 0..24; extended (RFC 8536 v3): [+-]hh.. with hh up to 167
fn r_rule_time(b: &[u8], pos: &mut usize, ext: bool) -> Option<i64> {
    let sg = if ext { r_sign(b, pos) } else { 1 };
    let (h, m, s) = r_hhmmss(b, pos)?;
    if h > (if ext { 167 } else { 24 }) || m > 59 || s > 59 {
        return None;
    }
    Some(sg * (h * 3600 + m * 60 + s))
}
#[derive(PartialEq, Clone, Copy)]
enum RDay {
    J(i64),
    Z(i64),
    M(i64, i64, i64),
}
fn r_day(b: &[u8], pos: &mut usize) -> Option<RDay> {
    if *pos < b.len() && b[*pos] == b'J' {
        *pos += 1;
        let n = r_digits(b, pos)?;
        if n < 1 || n > 365 {
            return None;
        }
        Some(RDay::J(n))
    } else if *pos < b.len() && b[*pos] == b'M' {
        *pos += 1;
        let m = r_digits(b, pos)?;
        if !(*pos < b.len() && b[*pos] == b'.') {
            return None;
        }
        *pos += 1;
        let w = r_digits(b, pos)?;
        if !(*pos < b.len() && b[*pos] == b'.') {
            return None;
        }
        *pos += 1;
        let d = r_digits(b, pos)?;
        if m < 1 || m > 12 || w < 1 || w > 5 || d > 6 {
            return None;
        }
        Some(RDay::M(m, w, d))
    } else {
        let n = r_digits(b, pos)?;
        if n > 365 {
            return None;
        }
        Some(RDay::Z(n))
    }
}
fn same_day(d: &RuleDay, r: RDay) -> bool {
    match (d, r) {
        (RuleDay::Julian1WithoutLeap(x), RDay::J(n)) => x.get() as i64 == n,
        (RuleDay::Julian0WithLeap(x), RDay::Z(n)) => x.get() as i64 == n,
        (RuleDay::MonthWeekDay(x), RDay::M(m, w, d)) => x.month() as i64 == m && x.week() as i64 == w && x.week_day() as i64 == d,
        _ => false,
    }
}

// ------------------------------------------------------------------ unit harnesses
fn offset_body<const L: usize>() {
    let (buf, len) = any_ascii::<L>();
    let mut cursor: &[u8] = &buf[..len];
    let r = parse_offset(&mut cursor);
    let mut pos = 0;
    let want = r_offset(&buf[..len], &mut pos);
    match (&r, want) {
        (Ok(v), Some(w)) => {
            assert!(*v as i64 == w);
            assert!(cursor.len() == len - pos);
        }
        (Err(_), None) => {}
        _ => assert!(false),
    }
    kani::cover!(matches!(&r, Ok(v) if *v < 0 && *v % 3600 != 0));
    kani::cover!(matches!(&r, Err(TzStringError::InvalidOffsetHour)));
    kani::cover!(matches!(&r, Ok(v) if *v == 24 * 3600));
}

#[kani::proof]
#[kani::unwind(8)]
#[kani::stub(core::str::from_utf8, stub_from_utf8)]
fn c09_offset_len5() {
    offset_body::<5>();
}

#[kani::proof]
#[kani::unwind(11)]
#[kani::stub(core::str::from_utf8, stub_from_utf8)]
fn c09_offset_len9() {
    offset_body::<9>();
}

// @begin needs: fn parse_rule_time\(cursor: &mut Cursor<'_>\) -> Result<i32, TzStringError> ;; fn parse_rule_time_extended\(cursor: &mut Cursor<'_>\) -> Result<i32, TzStringError>
fn rule_time_body<const L: usize>(ext: bool) {
    let (buf, len) = any_ascii::<L>();
    let mut cursor: &[u8] = &buf[..len];
    let r = if ext { parse_rule_time_extended(&mut cursor) } else { parse_rule_time(&mut cursor) };
    let mut pos = 0;
    let want = r_rule_time(&buf[..len], &mut pos, ext);
    match (&r, want) {
        (Ok(v), Some(w)) => {
            assert!(*v as i64 == w);
            assert!(cursor.len() == len - pos);
        }
        (Err(_), None) => {}
        _ => assert!(false),
    }
    kani::cover!(matches!(&r, Ok(v) if *v % 60 != 0));
    kani::cover!(matches!(&r, Err(TzStringError::InvalidDayTimeHour)));
}

#[kani::proof]
#[kani::unwind(8)]
#[kani::stub(core::str::from_utf8, stub_from_utf8)]
fn c09_rule_time_len5() {
    rule_time_body::<5>(false);
}

#[kani::proof]
#[kani::unwind(8)]
#[kani::stub(core::str::from_utf8, stub_from_utf8)]
fn c09_rule_time_extended_len5() {
    rule_time_body::<5>(true);
}

#[kani::proof]
#[kani::unwind(12)]
#[kani::stub(core::str::from_utf8, stub_from_utf8)]
fn c09_rule_time_extended_len10() {
    rule_time_body::<10>(true);
}
// @end

fn rule_day_body<const L: usize>() {
    let (buf, len) = any_ascii::<L>();
    let mut cursor: &[u8] = &buf[..len];
    let r = parse_rule_day(&mut cursor);
    let mut pos = 0;
    let want = r_day(&buf[..len], &mut pos);
    match (&r, want) {
        (Ok(d), Some(w)) => {
            assert!(same_day(d, w));
            assert!(cursor.len() == len - pos);
        }
        (Err(_), None) => {}
        _ => assert!(false),
    }
    kani::cover!(matches!(&r, Ok(RuleDay::MonthWeekDay(_))));
    kani::cover!(matches!(&r, Ok(RuleDay::Julian1WithoutLeap(_))));
    kani::cover!(matches!(&r, Ok(RuleDay::Julian0WithLeap(_))) && len >= 2);
}

#[kani::proof]
#[kani::unwind(8)]
#[kani::stub(core::str::from_utf8, stub_from_utf8)]
fn c09_rule_day_len6() {
    rule_day_body::<6>();
}

#[kani::proof]
#[kani::unwind(10)]
#[kani::stub(core::str::from_utf8, stub_from_utf8)]
fn c09_rule_day_len8() {
    rule_day_body::<8>();
}

/// names: an alphabetic run, or anything up to '>' when quoted in <>
#[kani::proof]
#[kani::unwind(9)]
fn c09_designation_len7() {
    let (buf, len) = any_ascii::<7>();
    let mut cursor: &[u8] = &buf[..len];
    let r = parse_time_zone_designation(&mut cursor);
    let b = &buf[..len];
    if len > 0 && b[0] == b'<' {
        let mut e = 1;
        while e < len && b[e] != b'>' {
            e += 1;
        }
        if e < len {
            match &r {
                Ok(name) => {
                    assert!(name.len() == e - 1 && (e == 1 || core::ptr::eq(&name[0], &b[1])));
                    assert!(cursor.len() == len - e - 1);
                }
                Err(_) => assert!(false),
            }
        } else {
            assert!(r.is_err());
        }
    } else {
        let mut e = 0;
        while e < len && ((b[e] >= b'a' && b[e] <= b'z') || (b[e] >= b'A' && b[e] <= b'Z')) {
            e += 1;
        }
        match &r {
            Ok(name) => {
                assert!(name.len() == e && (e == 0 || core::ptr::eq(&name[0], &b[0])));
                assert!(cursor.len() == len - e);
            }
            Err(_) => assert!(false),
        }
    }
    kani::cover!(matches!(&r, Ok(n) if n.len() == 3) && buf[0] == b'<');
    kani::cover!(matches!(&r, Ok(n) if n.len() == 4) && buf[0] != b'<');
}

/// the real UTF-8 validation path: non-ASCII digits cannot occur (read_while(is_ascii_digit)), arbitrary bytes to parse_int are refused or parsed
#[kani::proof]
#[kani::unwind(6)]
fn c09_parse_int_real_utf8_len3() {
    let buf: [u8; 3] = kani::any();
    let len: usize = kani::any();
    kani::assume(len <= 3);
    let r: Result<i32, TzStringError> = parse_int(&buf[..len]);
    let mut all_digits = len > 0;
    let mut v: i32 = 0;
    let mut i = 0;
    while i < len {
        if buf[i] >= b'0' && buf[i] <= b'9' {
            v = v * 10 + (buf[i] - b'0') as i32;
        } else {
            all_digits = false;
        }
        i += 1;
    }
    if all_digits {
        assert!(matches!(&r, Ok(x) if *x == v));
    }
    if let Ok(_) = &r {
        // accepted: digits with an optional leading sign (FromStr for i32)
        assert!(len > 0 && (buf[0] == b'+' || buf[0] == b'-' || (buf[0] >= b'0' && buf[0] <= b'9')));
    }
    kani::cover!(matches!(&r, Err(TzStringError::Utf8(_))));
    kani::cover!(matches!(&r, Err(TzStringError::ParseInt(_))));
    kani::cover!(matches!(&r, Ok(x) if *x == 999));
}

// @begin needs: fn parse_rule_time\(cursor: &mut Cursor<'_>\) -> Result<i32, TzStringError> ;; fn parse_rule_time_extended\(cursor: &mut Cursor<'_>\) -> Result<i32, TzStringError>
// ------------------------------------------------------------------ rule block: default time 02:00:00, extension flag selects the time parser
static RT_CALLS: AtomicUsize = AtomicUsize::new(0);
static RTX_CALLS: AtomicUsize = AtomicUsize::new(0);
fn stub_rule_time(cursor: &mut Cursor<'_>) -> Result<i32, TzStringError> {
    RT_CALLS.fetch_add(1, AO::Relaxed);
    let n: usize = kani::any();
    kani::assume(n <= cursor.len());
    *cursor = &cursor[n..];
    if kani::any() {
        let v: i32 = kani::any();
        kani::assume(0 <= v && v <= 24 * 3600 + 59 * 60 + 59);
        LASTV.store(v, AO::Relaxed);
        Ok(v)
    } else {
        Err(TzStringError::InvalidDayTimeHour)
    }
}
fn stub_rule_time_ext(cursor: &mut Cursor<'_>) -> Result<i32, TzStringError> {
    RTX_CALLS.fetch_add(1, AO::Relaxed);
    let n: usize = kani::any();
    kani::assume(n <= cursor.len());
    *cursor = &cursor[n..];
    if kani::any() {
        let v: i32 = kani::any();
        kani::assume(-(167 * 3600 + 3599) <= v && v <= 167 * 3600 + 3599);
        LASTV.store(v, AO::Relaxed);
        Ok(v)
    } else {
        Err(TzStringError::InvalidDayTimeHour)
    }
}
static LASTV: AtomicI32 = AtomicI32::new(0);

#[kani::proof]
#[kani::unwind(8)]
#[kani::stub(core::str::from_utf8, stub_from_utf8)]
#[kani::stub(crate::parse::tz_string::parse_rule_time, stub_rule_time)]
#[kani::stub(crate::parse::tz_string::parse_rule_time_extended, stub_rule_time_ext)]
fn c09_rule_block() {
    let (buf, len) = any_ascii::<5>();
    let ext: bool = kani::any();
    let mut cursor: &[u8] = &buf[..len];
    let r = parse_rule_block(&mut cursor, ext);
    let mut pos = 0;
    let day = r_day(&buf[..len], &mut pos);
    match day {
        None => assert!(r.is_err() && RT_CALLS.load(AO::Relaxed) + RTX_CALLS.load(AO::Relaxed) == 0),
        Some(d) => {
            if pos < len && buf[pos] == b'/' {
                // explicit time: exactly one call of the parser selected by the extension flag
                assert!(RT_CALLS.load(AO::Relaxed) == (!ext) as usize && RTX_CALLS.load(AO::Relaxed) == ext as usize);
                if let Ok((rd, t)) = &r {
                    assert!(same_day(rd, d) && *t == LASTV.load(AO::Relaxed));
                }
            } else {
                assert!(RT_CALLS.load(AO::Relaxed) + RTX_CALLS.load(AO::Relaxed) == 0);
                match &r {
                    Ok((rd, t)) => {
                        assert!(same_day(rd, d) && *t == 7200);
                        assert!(cursor.len() == len - pos);
                    }
                    Err(_) => assert!(false),
                }
            }
        }
    }
    kani::cover!(matches!(&r, Ok((_, t)) if *t == 7200));
    kani::cover!(r.is_ok() && RTX_CALLS.load(AO::Relaxed) == 1);
}
// @end

// ------------------------------------------------------------------ rule block with the REAL time parsers behind it: this harness names only
// `parse_rule_block`, so it survives refactors of the private time parsers (merged, renamed, re-typed) that cost the unit harnesses above
fn rule_block_real_body<const L: usize>(ext: bool) {
    let (tail, tl) = any_ascii::<L>();
    let mut buf = [0u8; 12];
    buf[0] = b'5';
    buf[1] = b'/';
    let mut i = 0;
    while i < L {
        buf[2 + i] = tail[i];
        i += 1;
    }
    let len = 2 + tl;
    let mut cursor: &[u8] = &buf[..len];
    let r = parse_rule_block(&mut cursor, ext);
    let mut pos = 2;
    let want = r_rule_time(&buf[..len], &mut pos, ext);
    match (&r, want) {
        (Ok((d, t)), Some(w)) => {
            assert!(same_day(d, RDay::Z(5)));
            assert!(*t as i64 == w);
            assert!(cursor.len() == len - pos);
        }
        (Err(_), None) => {}
        _ => assert!(false),
    }
    kani::cover!(matches!(&r, Ok((_, t)) if *t % 60 != 0));
    kani::cover!(r.is_err() && tl > 0 && tail[0] == b'+');
}

#[kani::proof]
#[kani::unwind(9)]
#[kani::stub(core::str::from_utf8, stub_from_utf8)]
fn c09_block_real_time_posix_len5() {
    rule_block_real_body::<5>(false);
}

#[kani::proof]
#[kani::unwind(9)]
#[kani::stub(core::str::from_utf8, stub_from_utf8)]
fn c09_block_real_time_ext_len5() {
    rule_block_real_body::<5>(true);
}

// ------------------------------------------------------------------ composition: parse_posix_tz with abstracted sub-parsers
// Every abstracted sub-parser consumes a nondeterministic number of bytes, returns a nondeterministic value inside its
// proven range (or fails) and logs (kind, position before, position after, ok). The harness replays the grammar on the log.
static TOTAL: AtomicUsize = AtomicUsize::new(0);
static NCALL: AtomicUsize = AtomicUsize::new(0);
static KIND: [AtomicU8; 6] = [AtomicU8::new(0), AtomicU8::new(0), AtomicU8::new(0), AtomicU8::new(0), AtomicU8::new(0), AtomicU8::new(0)];
static PBEF: [AtomicUsize; 6] = [AtomicUsize::new(0), AtomicUsize::new(0), AtomicUsize::new(0), AtomicUsize::new(0), AtomicUsize::new(0), AtomicUsize::new(0)];
static PAFT: [AtomicUsize; 6] = [AtomicUsize::new(0), AtomicUsize::new(0), AtomicUsize::new(0), AtomicUsize::new(0), AtomicUsize::new(0), AtomicUsize::new(0)];
static OKAY: [AtomicU8; 6] = [AtomicU8::new(0), AtomicU8::new(0), AtomicU8::new(0), AtomicU8::new(0), AtomicU8::new(0), AtomicU8::new(0)];
static VAL: [AtomicI32; 6] = [AtomicI32::new(0), AtomicI32::new(0), AtomicI32::new(0), AtomicI32::new(0), AtomicI32::new(0), AtomicI32::new(0)];
static AUX: [AtomicU8; 6] = [AtomicU8::new(0), AtomicU8::new(0), AtomicU8::new(0), AtomicU8::new(0), AtomicU8::new(0), AtomicU8::new(0)];
const NAMES: [&[u8]; 2] = [b"AAA", b"BBBB"];

fn log_call(kind: u8, cursor: &mut Cursor<'_>) -> (usize, bool) {
    let i = NCALL.fetch_add(1, AO::Relaxed);
    assert!(i < 6);
    KIND[i].store(kind, AO::Relaxed);
    PBEF[i].store(TOTAL.load(AO::Relaxed) - cursor.len(), AO::Relaxed);
    let n: usize = kani::any();
    kani::assume(n <= cursor.len());
    *cursor = &cursor[n..];
    PAFT[i].store(TOTAL.load(AO::Relaxed) - cursor.len(), AO::Relaxed);
    let ok: bool = kani::any();
    OKAY[i].store(ok as u8, AO::Relaxed);
    (i, ok)
}
fn stub_designation<'a>(cursor: &mut Cursor<'a>) -> Result<&'a [u8], ParseDataError> {
    let (i, ok) = log_call(1, cursor);
    let which = if i == 0 { 0 } else { 1 };
    if ok {
        Ok(NAMES[which])
    } else {
        Err(ParseDataError::UnexpectedEof)
    }
}
fn stub_offset(cursor: &mut Cursor<'_>) -> Result<i32, TzStringError> {
    let (i, ok) = log_call(2, cursor);
    if ok {
        let v: i32 = kani::any();
        kani::assume(-(24 * 3600 + 3599) <= v && v <= 24 * 3600 + 3599);
        VAL[i].store(v, AO::Relaxed);
        Ok(v)
    } else {
        Err(TzStringError::InvalidOffsetHour)
    }
}
fn stub_block(cursor: &mut Cursor<'_>, ext: bool) -> Result<(RuleDay, i32), TzError> {
    let (i, ok) = log_call(3, cursor);
    if ok {
        let n: u8 = kani::any();
        kani::assume(n <= 200);
        let t: i32 = kani::any();
        kani::assume(-604799 <= t && t <= 604799);
        VAL[i].store(t, AO::Relaxed);
        AUX[i].store(n | if ext { 0 } else { 0 }, AO::Relaxed);
        EXTS[i].store(ext as u8, AO::Relaxed);
        Ok((RuleDay::Julian0WithLeap(Julian0WithLeap::new(n as u16).unwrap()), t))
    } else {
        EXTS[i].store(ext as u8, AO::Relaxed);
        Err(TzError::TzString(TzStringError::InvalidDayTimeHour))
    }
}
static EXTS: [AtomicU8; 6] = [AtomicU8::new(0), AtomicU8::new(0), AtomicU8::new(0), AtomicU8::new(0), AtomicU8::new(0), AtomicU8::new(0)];

fn is_err_any(r: &Result<TransitionRule, TzError>) -> bool {
    r.is_err()
}

#[kani::proof]
#[kani::unwind(9)]
#[kani::stub(crate::parse::tz_string::parse_time_zone_designation, stub_designation)]
#[kani::stub(crate::parse::tz_string::parse_offset, stub_offset)]
#[kani::stub(crate::parse::tz_string::parse_rule_block, stub_block)]
fn c09_composition() {
    let (buf, len) = any_ascii::<6>();
    TOTAL.store(len, AO::Relaxed);
    let ext: bool = kani::any();
    let r = parse_posix_tz(&buf[..len], ext);
    let n = NCALL.load(AO::Relaxed);
    let kind = |i: usize| KIND[i].load(AO::Relaxed);
    let okay = |i: usize| OKAY[i].load(AO::Relaxed) == 1;
    let bef = |i: usize| PBEF[i].load(AO::Relaxed);
    let aft = |i: usize| PAFT[i].load(AO::Relaxed);
    // std name, std offset
    assert!(n >= 1 && kind(0) == 1 && bef(0) == 0);
    if !okay(0) {
        assert!(n == 1 && matches!(&r, Err(TzError::TzString(TzStringError::ParseData(_)))));
        return;
    }
    assert!(n >= 2 && kind(1) == 2 && bef(1) == aft(0));
    if !okay(1) {
        assert!(n == 2 && matches!(&r, Err(TzError::TzString(TzStringError::InvalidOffsetHour))));
        return;
    }
    let o1 = VAL[1].load(AO::Relaxed);
    let mut p = aft(1);
    if p == len {
        // "std offset" only: UTC offset is the NEGATION of the POSIX offset, not DST
        assert!(n == 2);
        match &r {
            Ok(TransitionRule::Fixed(l)) => assert!(*l == LocalTimeType::new(-o1, false, Some(NAMES[0])).unwrap()),
            _ => assert!(false),
        }
        kani::cover!(o1 > 0);
        return;
    }
    // dst name
    assert!(n >= 3 && kind(2) == 1 && bef(2) == p);
    if !okay(2) {
        assert!(n == 3 && matches!(&r, Err(TzError::TzString(TzStringError::ParseData(_)))));
        return;
    }
    p = aft(2);
    if p == len {
        assert!(n == 3 && matches!(&r, Err(TzError::TzString(TzStringError::MissingDstStartEndRules))));
        kani::cover!(true);
        return;
    }
    let mut next = 3;
    // a missing DST offset means one hour ahead of standard time
    let o2 = if buf[p] == b',' {
        o1 - 3600
    } else {
        assert!(n >= 4 && kind(3) == 2 && bef(3) == p);
        if !okay(3) {
            assert!(n == 4 && r.is_err());
            return;
        }
        p = aft(3);
        next = 4;
        VAL[3].load(AO::Relaxed)
    };
    if p == len {
        assert!(n == next && matches!(&r, Err(TzError::TzString(TzStringError::MissingDstStartEndRules))));
        return;
    }
    // ",start[/time]"
    if buf[p] != b',' {
        assert!(n == next && matches!(&r, Err(TzError::TzString(TzStringError::ParseData(ParseDataError::InvalidData)))));
        return;
    }
    p += 1;
    assert!(n > next && kind(next) == 3 && bef(next) == p && (EXTS[next].load(AO::Relaxed) == 1) == ext);
    if !okay(next) {
        assert!(n == next + 1 && r.is_err());
        return;
    }
    let (d1, t1) = (AUX[next].load(AO::Relaxed), VAL[next].load(AO::Relaxed));
    p = aft(next);
    next += 1;
    // ",end[/time]"
    if p == len {
        assert!(n == next && matches!(&r, Err(TzError::TzString(TzStringError::ParseData(ParseDataError::UnexpectedEof)))));
        return;
    }
    if buf[p] != b',' {
        assert!(n == next && matches!(&r, Err(TzError::TzString(TzStringError::ParseData(ParseDataError::InvalidData)))));
        return;
    }
    p += 1;
    assert!(n > next && kind(next) == 3 && bef(next) == p && (EXTS[next].load(AO::Relaxed) == 1) == ext);
    if !okay(next) {
        assert!(n == next + 1 && r.is_err());
        return;
    }
    let (d2, t2) = (AUX[next].load(AO::Relaxed), VAL[next].load(AO::Relaxed));
    p = aft(next);
    next += 1;
    assert!(n == next);
    if p != len {
        assert!(matches!(&r, Err(TzError::TzString(TzStringError::RemainingData))));
        kani::cover!(true);
        return;
    }
    let want = AlternateTime::new(
        LocalTimeType::new(-o1, false, Some(NAMES[0])).unwrap(),
        LocalTimeType::new(-o2, true, Some(NAMES[1])).unwrap(),
        RuleDay::Julian0WithLeap(Julian0WithLeap::new(d1 as u16).unwrap()),
        t1,
        RuleDay::Julian0WithLeap(Julian0WithLeap::new(d2 as u16).unwrap()),
        t2,
    );
    match (&r, &want) {
        (Ok(TransitionRule::Alternate(a)), Ok(w)) => assert!(a == w),
        (Err(TzError::TransitionRule(_)), Err(_)) => {}
        _ => assert!(false),
    }
    kani::cover!(r.is_ok() && next == 5);
    kani::cover!(r.is_ok() && next == 6);
}
