//! Kani proof harnesses (overlay only, `cfg(kani)`): child module of `timezone`, so private items are reachable.
//! C03 (table lookup), C12 (leap-second conversions), C13 (zone constructor).
#![allow(dead_code, unused_imports, missing_docs, clippy::all)]
use super::*;
use crate::error::timezone::TimeZoneError;
use crate::error::TzError;
pub(crate) use super::rule::verif_kani::{raw_alt, unix_time_from_parts};

// ------------------------------------------------------------------ shared generators (order of kani::any() calls is
// part of the interface with lib/engb.py's concrete-playback decoder; keep it stable)
pub(crate) fn any_ltt() -> LocalTimeType {
    let off: i32 = kani::any();
    let dst: bool = kani::any();
    kani::assume(off != i32::MIN);
    LocalTimeType { ut_offset: off, is_dst: dst, time_zone_designation: None }
}

pub(crate) fn any_leaps3() -> ([LeapSecond; 3], usize) {
    let n: usize = kani::any();
    kani::assume(n <= 3);
    let ls = [LeapSecond::new(kani::any(), kani::any()), LeapSecond::new(kani::any(), kani::any()), LeapSecond::new(kani::any(), kani::any())];
    (ls, n)
}

/// stubs proving that rule arithmetic is not reached from table / fixed-rule zones (S_unreach)
pub(crate) fn stub_rule_unix_time(_s: &RuleDay, _y: i32, _t: i64) -> i64 {
    assert!(false);
    0
}
pub(crate) fn stub_alt_find<'a>(s: &'a AlternateTime, _t: i64) -> Result<&'a LocalTimeType, TzError> {
    assert!(false);
    Ok(s.std())
}


// @begin needs: binary_search_transitions\(self\.transitions ;; binary_search_leap_seconds\(self\.leap_seconds
// ------------------------------------------------------------------ C03 / C12: the shared binary-search helper for EVERY table length up to 64.
// The search is comparison-based: its index arithmetic depends only on the outcomes of the comparisons, and those are exhausted by a
// symbolic key over a fixed strictly increasing table (10*i - 200) - every length 0..64, every key between, at, before and after the
// entries. (The zone harnesses above use symbolic contents but lengths <= 6/8/12.)
const BS_N: usize = 64;
const BS_TR: [Transition; BS_N] = {
    let mut a = [Transition::new(0, 0); BS_N];
    let mut i = 0;
    while i < BS_N {
        a[i] = Transition::new(10 * i as i64 - 200, 0);
        i += 1;
    }
    a
};
const BS_LS: [LeapSecond; BS_N] = {
    let mut a = [LeapSecond::new(0, 0); BS_N];
    let mut i = 0;
    while i < BS_N {
        a[i] = LeapSecond::new(10 * i as i64 - 200, i as i32);
        i += 1;
    }
    a
};

fn bs_key_and_expectation(n: usize) -> (i64, Result<usize, usize>) {
    let k: i64 = kani::any();
    let d: i64 = kani::any();
    kani::assume(-2 <= k && k <= BS_N as i64 + 1 && 0 <= d && d <= 9);
    let x = 10 * k - 200 + d;
    let want = if d == 0 && 0 <= k && (k as usize) < n {
        Ok(k as usize)
    } else {
        // number of entries below the key
        let below = if d > 0 { k + 1 } else { k };
        Err(if below < 0 { 0 } else if below as usize > n { n } else { below as usize })
    };
    (x, want)
}

#[kani::proof]
#[kani::unwind(9)]
fn c03_binary_search_transitions_every_length_upto_64() {
    let n: usize = kani::any();
    kani::assume(n <= BS_N);
    let (x, want) = bs_key_and_expectation(n);
    let got = crate::utils::binary_search_transitions(&BS_TR[..n], x);
    assert!(got == want);
    kani::cover!(n == 9 && matches!(got, Err(8)));
    kani::cover!(n == BS_N && matches!(got, Ok(0)));
}

#[kani::proof]
#[kani::unwind(9)]
fn c12_binary_search_leap_seconds_every_length_upto_64() {
    let n: usize = kani::any();
    kani::assume(n <= BS_N);
    let (x, want) = bs_key_and_expectation(n);
    let got = crate::utils::binary_search_leap_seconds(&BS_LS[..n], x);
    assert!(got == want);
    kani::cover!(n == 27 && matches!(got, Ok(26)));
}
// @end

// @begin needs: const fn new_unchecked\( ;; binary_search_transitions\(self\.transitions ;; binary_search_leap_seconds\(self\.leap_seconds
/// the same helper through the public lookup: a zone with 0..=64 transitions at 10*i - 200 (all of type 0, no rule): "no type available"
/// exactly at or after the last transition, whatever the length
#[kani::proof]
#[kani::unwind(9)]
#[kani::stub(crate::timezone::RuleDay::unix_time, stub_rule_unix_time)]
#[kani::stub(crate::timezone::AlternateTime::find_local_time_type, stub_alt_find)]
fn c03_lookup_every_length_upto_64_concrete_table() {
    let n: usize = kani::any();
    kani::assume(n <= BS_N);
    let types = [LocalTimeType::utc(), match LocalTimeType::with_ut_offset(3600) {
        Ok(l) => l,
        Err(_) => return,
    }];
    let zone = TimeZoneRef::new_unchecked(&BS_TR[..n], &types, &[], &None);
    let (x, want) = bs_key_and_expectation(n);
    let r = zone.find_local_time_type(x);
    // all entries carry type index 0: at/after the last transition there is no type (no rule); before: types[0]
    let last = match want {
        Ok(i) => i + 1,
        Err(i) => i,
    };
    if n > 0 && last == n {
        assert!(matches!(r, Err(TzError::NoAvailableLocalTimeType)));
    } else {
        assert!(matches!(r, Ok(l) if core::ptr::eq(l, &types[0])));
    }
}
// @end

// ------------------------------------------------------------------ C12
/// Declarative specification: the correction in force at leap count `l` is that of the last record whose own
/// second has been reached: a record that RAISES the correction (inserted second) applies after its second
/// (`time < l`: the inserted second shares the UTC value of the following one), a record that LOWERS it (deleted
/// second) applies at its second (`time <= l`).
fn spec_corr(ls: &[LeapSecond], l: i64) -> i32 {
    let mut c = 0;
    let mut i = 0;
    while i < ls.len() {
        let rec = &ls[i];
        let lowers = rec.correction() < c;
        if rec.unix_leap_time() < l || (lowers && rec.unix_leap_time() == l) {
            c = rec.correction();
        } else {
            break;
        }
        i += 1;
    }
    c
}

/// UTC values that no leap count denotes (deleted by a negative leap second)
fn deleted(ls: &[LeapSecond], u: i64) -> bool {
    let mut c = 0i32;
    let mut i = 0;
    let mut r = false;
    while i < ls.len() {
        let rec = &ls[i];
        if rec.correction() < c && (rec.unix_leap_time() as i128 - c as i128) == u as i128 {
            r = true;
        }
        c = rec.correction();
        i += 1;
    }
    r
}

fn c12_body(only_insertions: bool, need_deletion: bool) {
    let (ls, n) = any_leaps3();
    let types = [LocalTimeType::utc()];
    let zone = match TimeZoneRef::new(&[], &types, &ls[..n], &None) {
        Ok(z) => z,
        Err(_) => return,
    };
    let ls = &ls[..n];
    let mut c = 0;
    let mut i = 0;
    let mut has_del = false;
    while i < n {
        if ls[i].correction() < c {
            has_del = true;
        }
        c = ls[i].correction();
        i += 1;
    }
    if only_insertions {
        kani::assume(!has_del);
    }
    if need_deletion {
        kani::assume(has_del);
    }
    let u: i64 = kani::any();
    let v: i64 = kani::any();
    let t: i64 = kani::any();
    // (1) leap count -> UTC is the declarative one; overflow is an error value
    let x = zone.unix_leap_time_to_unix_time(t);
    match t.checked_sub(spec_corr(ls, t) as i64) {
        Some(want) if t != i64::MIN => assert!(matches!(&x, Ok(g) if *g == want)),
        _ => assert!(matches!(&x, Err(TzError::OutOfRange))),
    }
    // (2) monotone
    let lu = zone.unix_time_to_unix_leap_time(u);
    let lv = zone.unix_time_to_unix_leap_time(v);
    if let (Ok(a), Ok(b)) = (&lu, &lv) {
        if u <= v {
            assert!(*a <= *b);
        }
    }
    if let Ok(a) = &lu {
        let a = *a;
        // (3) round trip for every instant that exists
        if !deleted(ls, u) {
            if let Ok(back) = zone.unix_leap_time_to_unix_time(a) {
                assert!(back == u);
            }
        }
        // (4) a transition recorded at count t is in force at u exactly from the UTC instant that t denotes
        if let Ok(xt) = &x {
            assert!((a >= t) == (u >= *xt));
        }
        kani::cover!(n == 3 && a != u);
    } else {
        assert!(matches!(lu, Err(TzError::OutOfRange)));
    }
    // (5) an inserted leap second shares the UTC value of the second that follows it
    let k: usize = kani::any();
    kani::assume(k < n);
    let prev = if k == 0 { 0 } else { ls[k - 1].correction() };
    if ls[k].correction() > prev && ls[k].unix_leap_time() < i64::MAX {
        let a = zone.unix_leap_time_to_unix_time(ls[k].unix_leap_time());
        let b = zone.unix_leap_time_to_unix_time(ls[k].unix_leap_time() + 1);
        if let (Ok(a), Ok(b)) = (a, b) {
            assert!(a == b);
        }
    }
    kani::cover!(n == 3);
    kani::cover!(n == 2 && (has_del || only_insertions));
}

#[kani::proof]
#[kani::unwind(6)]
fn c12_insertions() {
    c12_body(true, false);
}

#[kani::proof]
#[kani::unwind(6)]
fn c12_with_deletions() {
    c12_body(false, true);
}

/// four records: every triple of adjacent step patterns (+/-) occurs
#[kani::proof]
#[kani::unwind(7)]
fn c12_four_records() {
    let n: usize = kani::any();
    kani::assume(n <= 4);
    let ls = [LeapSecond::new(kani::any(), kani::any()), LeapSecond::new(kani::any(), kani::any()), LeapSecond::new(kani::any(), kani::any()), LeapSecond::new(kani::any(), kani::any())];
    let types = [LocalTimeType::utc()];
    let zone = match TimeZoneRef::new(&[], &types, &ls[..n], &None) {
        Ok(z) => z,
        Err(_) => return,
    };
    let ls = &ls[..n];
    let u: i64 = kani::any();
    let v: i64 = kani::any();
    let t: i64 = kani::any();
    let x = zone.unix_leap_time_to_unix_time(t);
    match t.checked_sub(spec_corr(ls, t) as i64) {
        Some(want) if t != i64::MIN => assert!(matches!(&x, Ok(g) if *g == want)),
        _ => assert!(matches!(&x, Err(TzError::OutOfRange))),
    }
    let lu = zone.unix_time_to_unix_leap_time(u);
    let lv = zone.unix_time_to_unix_leap_time(v);
    if let (Ok(a), Ok(b)) = (&lu, &lv) {
        if u <= v {
            assert!(*a <= *b);
        }
    }
    if let Ok(a) = &lu {
        if !deleted(ls, u) {
            if let Ok(back) = zone.unix_leap_time_to_unix_time(*a) {
                assert!(back == u);
            }
        }
        if let Ok(xt) = &x {
            assert!((*a >= t) == (u >= *xt));
        }
    }
    kani::cover!(n == 4 && ls[1].correction() == 0 && ls[3].correction() == 0);
    kani::cover!(n == 4 && ls[3].correction() == 4);
}

/// public observable: the forward lookup switches type exactly at the UTC instant the transition's count denotes
#[kani::proof]
#[kani::unwind(6)]
#[kani::stub(crate::timezone::RuleDay::unix_time, stub_rule_unix_time)]
#[kani::stub(crate::timezone::AlternateTime::find_local_time_type, stub_alt_find)]
fn c12_lookup_switch() {
    let (ls, n) = any_leaps3();
    kani::assume(n <= 2);
    let types = [any_ltt(), any_ltt()];
    kani::assume(types[0].ut_offset != types[1].ut_offset);
    let tt: i64 = kani::any();
    let tr = [Transition::new(tt, 1)];
    let rule = Some(TransitionRule::Fixed(types[1]));
    let zone = match TimeZoneRef::new(&tr, &types, &ls[..n], &rule) {
        Ok(z) => z,
        Err(_) => return,
    };
    let u: i64 = kani::any();
    let want_switch = match tt.checked_sub(spec_corr(&ls[..n], tt) as i64) {
        Some(w) if tt != i64::MIN => w,
        _ => return,
    };
    match zone.find_local_time_type(u) {
        Ok(l) => {
            assert!((l.ut_offset == types[1].ut_offset) == (u >= want_switch));
            assert!(core::ptr::eq(l, &types[0]) || l.ut_offset == types[1].ut_offset);
        }
        Err(e) => assert!(matches!(e, TzError::OutOfRange)),
    }
    kani::cover!(n == 2 && u >= want_switch);
    kani::cover!(n == 2 && u < want_switch);
}

// ------------------------------------------------------------------ C03
/// UTC instant denoted by leap count `l` (exact arithmetic), by the declarative C12 definition
fn spec_l2u(ls: &[LeapSecond], l: i64) -> i128 {
    l as i128 - spec_corr(ls, l) as i128
}

fn c03_body<const N: usize>(max_leaps: usize) {
    let types = [any_ltt(), any_ltt(), any_ltt()];
    // distinguishable types, so that a counterexample is observable by value and not only by address
    kani::assume(types[0].ut_offset != types[1].ut_offset && types[0].ut_offset != types[2].ut_offset && types[1].ut_offset != types[2].ut_offset);
    let tr: [Transition; N] = core::array::from_fn(|_| Transition::new(kani::any(), kani::any()));
    let n: usize = kani::any();
    kani::assume(n <= N);
    let (ls, m) = any_leaps3();
    kani::assume(m <= max_leaps);
    let has_rule: bool = kani::any();
    let rule = if has_rule { Some(TransitionRule::Fixed(any_ltt())) } else { None };
    let zone = match TimeZoneRef::new(&tr[..n], &types, &ls[..m], &rule) {
        Ok(z) => z,
        Err(_) => return,
    };
    let t: i64 = kani::any();
    let r = zone.find_local_time_type(t);
    // reference: linear scan for the last transition whose denoted UTC instant is <= t
    let mut last: Option<usize> = None;
    let mut i = 0;
    while i < n {
        if spec_l2u(&ls[..m], tr[i].unix_leap_time()) <= t as i128 {
            last = Some(i);
        }
        i += 1;
    }
    let rule_type: Option<&LocalTimeType> = match &rule {
        Some(TransitionRule::Fixed(l)) => Some(l),
        _ => None,
    };
    if let Err(TzError::OutOfRange) = &r {
        // only the leap conversion can overflow, and only within |correction| <= 3 of the ends of i64
        assert!(m > 0 && n > 0 && (t > i64::MAX - 4 || t < i64::MIN + 4));
        return;
    }
    if n == 0 || last == Some(n - 1) {
        match rule_type {
            Some(l) => assert!(matches!(&r, Ok(x) if core::ptr::eq(*x, l))),
            None if n == 0 => assert!(matches!(&r, Ok(x) if core::ptr::eq(*x, &types[0]))),
            None => assert!(matches!(&r, Err(TzError::NoAvailableLocalTimeType))),
        }
    } else {
        let want = match last {
            Some(j) => &types[tr[j].local_time_type_index()],
            None => &types[0],
        };
        assert!(matches!(&r, Ok(x) if core::ptr::eq(*x, want)));
    }
    kani::cover!(n == N && last == Some(0));
    kani::cover!(n == N && last.is_none());
    kani::cover!(n == N && N > 1 && last == Some(N - 2));
    kani::cover!(n == N && last == Some(N - 1) && has_rule);
}

#[kani::proof]
#[kani::unwind(6)]
#[kani::stub(crate::timezone::RuleDay::unix_time, stub_rule_unix_time)]
#[kani::stub(crate::timezone::AlternateTime::find_local_time_type, stub_alt_find)]
fn c03_lookup_n4() {
    c03_body::<4>(0);
}

#[kani::proof]
#[kani::unwind(8)]
#[kani::stub(crate::timezone::RuleDay::unix_time, stub_rule_unix_time)]
#[kani::stub(crate::timezone::AlternateTime::find_local_time_type, stub_alt_find)]
fn c03_lookup_n6() {
    c03_body::<6>(0);
}

#[kani::proof]
#[kani::unwind(10)]
#[kani::stub(crate::timezone::RuleDay::unix_time, stub_rule_unix_time)]
#[kani::stub(crate::timezone::AlternateTime::find_local_time_type, stub_alt_find)]
fn c03_lookup_n8() {
    c03_body::<8>(0);
}

#[kani::proof]
#[kani::unwind(14)]
#[kani::stub(crate::timezone::RuleDay::unix_time, stub_rule_unix_time)]
#[kani::stub(crate::timezone::AlternateTime::find_local_time_type, stub_alt_find)]
fn c03_lookup_n12() {
    c03_body::<12>(0);
}

#[kani::proof]
#[kani::unwind(8)]
#[kani::stub(crate::timezone::RuleDay::unix_time, stub_rule_unix_time)]
#[kani::stub(crate::timezone::AlternateTime::find_local_time_type, stub_alt_find)]
fn c03_lookup_leap_n6() {
    c03_body::<6>(3);
}

#[kani::proof]
#[kani::unwind(6)]
#[kani::stub(crate::timezone::RuleDay::unix_time, stub_rule_unix_time)]
#[kani::stub(crate::timezone::AlternateTime::find_local_time_type, stub_alt_find)]
fn c03_lookup_leap_n3() {
    c03_body::<3>(2);
}

#[kani::proof]
#[kani::unwind(6)]
#[kani::stub(crate::timezone::RuleDay::unix_time, stub_rule_unix_time)]
#[kani::stub(crate::timezone::AlternateTime::find_local_time_type, stub_alt_find)]
fn c03_lookup_leap_n4() {
    c03_body::<4>(3);
}

// ------------------------------------------------------------------ C13
pub(crate) fn any_ltt_full() -> LocalTimeType {
    let off: i32 = kani::any();
    let dst: bool = kani::any();
    kani::assume(off != i32::MIN);
    let has: bool = kani::any();
    let bytes: [u8; 8] = kani::any();
    LocalTimeType { ut_offset: off, is_dst: dst, time_zone_designation: if has { Some(TzAsciiStr { bytes }) } else { None } }
}

fn same_ltt(a: &LocalTimeType, b: &LocalTimeType) -> bool {
    a.ut_offset == b.ut_offset
        && a.is_dst == b.is_dst
        && match (&a.time_zone_designation, &b.time_zone_designation) {
            (Some(x), Some(y)) => {
                let mut i = 0;
                let mut e = true;
                while i < 8 {
                    if x.bytes[i] != y.bytes[i] {
                        e = false;
                    }
                    i += 1;
                }
                e
            }
            (None, None) => true,
            _ => false,
        }
}

struct Spec {
    no_type: bool,
    bad_index: bool,
    bad_order: bool,
    bad_leap: bool,
    conv_overflow: bool,
    rule_mismatch: bool,
}

fn c13_spec(tr: &[Transition], types: &[LocalTimeType], ls: &[LeapSecond], rule_type_at_last: Option<&LocalTimeType>) -> Spec {
    let mut s = Spec { no_type: types.is_empty(), bad_index: false, bad_order: false, bad_leap: false, conv_overflow: false, rule_mismatch: false };
    let mut i = 0;
    while i < tr.len() {
        if tr[i].local_time_type_index() >= types.len() {
            s.bad_index = true;
        }
        if i + 1 < tr.len() && tr[i].unix_leap_time() >= tr[i + 1].unix_leap_time() {
            s.bad_order = true;
        }
        i += 1;
    }
    if !ls.is_empty() {
        let c0 = ls[0].correction() as i64;
        if ls[0].unix_leap_time() < 0 || !(c0 == 1 || c0 == -1) {
            s.bad_leap = true;
        }
        let mut j = 0;
        while j + 1 < ls.len() {
            let dt = ls[j + 1].unix_leap_time() as i128 - ls[j].unix_leap_time() as i128;
            let dc = ls[j + 1].correction() as i64 - ls[j].correction() as i64;
            if dt < 28 * 86400 - 1 || !(dc == 1 || dc == -1) {
                s.bad_leap = true;
            }
            j += 1;
        }
    }
    if let (Some(rt), Some(last)) = (rule_type_at_last, tr.last()) {
        let u = spec_l2u(ls, last.unix_leap_time());
        if last.unix_leap_time() == i64::MIN || u > i64::MAX as i128 || u < i64::MIN as i128 {
            s.conv_overflow = true;
        } else if !s.no_type && !s.bad_index && !same_ltt(rt, &types[last.local_time_type_index()]) {
            s.rule_mismatch = true;
        }
    }
    s
}

fn c13_check(r: &Result<(), TzError>, s: &Spec) {
    let all_ok = !(s.no_type || s.bad_index || s.bad_order || s.bad_leap || s.conv_overflow || s.rule_mismatch);
    match r {
        Ok(()) => assert!(all_ok),
        Err(TzError::TimeZone(TimeZoneError::NoLocalTimeType)) => assert!(s.no_type),
        Err(TzError::TimeZone(TimeZoneError::InvalidLocalTimeTypeIndex)) => assert!(s.bad_index),
        Err(TzError::TimeZone(TimeZoneError::InvalidTransition)) => assert!(s.bad_order),
        Err(TzError::TimeZone(TimeZoneError::InvalidLeapSecond)) => assert!(s.bad_leap),
        Err(TzError::OutOfRange) => assert!(s.conv_overflow),
        Err(TzError::TimeZone(TimeZoneError::InconsistentExtraRule)) => assert!(s.rule_mismatch),
        Err(_) => assert!(false),
    }
    kani::cover!(r.is_ok());
}

#[kani::proof]
#[kani::unwind(10)]
#[kani::stub(crate::timezone::RuleDay::unix_time, stub_rule_unix_time)]
#[kani::stub(crate::timezone::AlternateTime::find_local_time_type, stub_alt_find)]
fn c13_ref_fixed_or_none() {
    let types = [any_ltt_full(), any_ltt_full(), any_ltt_full()];
    let k: usize = kani::any();
    kani::assume(k <= 3);
    let tr = [Transition::new(kani::any(), kani::any()), Transition::new(kani::any(), kani::any()), Transition::new(kani::any(), kani::any())];
    let n: usize = kani::any();
    kani::assume(n <= 3);
    let (ls, m) = any_leaps3();
    let has_rule: bool = kani::any();
    let rule = if has_rule { Some(TransitionRule::Fixed(any_ltt_full())) } else { None };
    let r = TimeZoneRef::new(&tr[..n], &types[..k], &ls[..m], &rule).map(|_| ());
    let rt = match &rule {
        Some(TransitionRule::Fixed(l)) => Some(l),
        _ => None,
    };
    let s = c13_spec(&tr[..n], &types[..k], &ls[..m], rt);
    c13_check(&r, &s);
    kani::cover!(s.rule_mismatch && !s.bad_order && !s.bad_leap);
    kani::cover!(s.conv_overflow && !s.bad_leap && !s.bad_order && !s.bad_index && !s.no_type);
    kani::cover!(r.is_ok() && n == 3 && m == 3 && has_rule);
}

static PICK: core::sync::atomic::AtomicU8 = core::sync::atomic::AtomicU8::new(0);
/// S_rule_spec: the DST rule prescribes std or dst (nondeterministic choice fixed by the harness); C04 decides which
fn stub_alt_pick<'a>(s: &'a AlternateTime, _t: i64) -> Result<&'a LocalTimeType, TzError> {
    if PICK.load(core::sync::atomic::Ordering::Relaxed) == 0 {
        Ok(s.std())
    } else {
        Ok(s.dst())
    }
}

#[kani::proof]
#[kani::unwind(10)]
#[kani::stub(crate::timezone::AlternateTime::find_local_time_type, stub_alt_pick)]
fn c13_rule_alternate() {
    let types = [any_ltt_full(), any_ltt_full()];
    let tr = [Transition::new(kani::any(), kani::any()), Transition::new(kani::any(), kani::any())];
    let n: usize = kani::any();
    kani::assume(n <= 2);
    let std = any_ltt_full();
    let dst = any_ltt_full();
    kani::assume(-90000 < std.ut_offset && std.ut_offset < 93600 && dst.ut_offset == std.ut_offset + 3600);
    let alt = match AlternateTime::new(std, dst, RuleDay::Julian0WithLeap(Julian0WithLeap::new(80).unwrap()), 7200, RuleDay::Julian0WithLeap(Julian0WithLeap::new(300).unwrap()), 7200) {
        Ok(a) => a,
        Err(_) => return,
    };
    let pick: u8 = kani::any();
    kani::assume(pick <= 1);
    PICK.store(pick, core::sync::atomic::Ordering::Relaxed);
    let rule = Some(TransitionRule::Alternate(alt));
    let r = TimeZoneRef::new(&tr[..n], &types, &[], &rule).map(|_| ());
    let prescribed = if pick == 0 { alt.std() } else { alt.dst() };
    let s = c13_spec(&tr[..n], &types, &[], Some(prescribed));
    c13_check(&r, &s);
    kani::cover!(r.is_ok() && n == 2 && pick == 1);
    kani::cover!(s.rule_mismatch && n == 2 && prescribed.ut_offset == types[tr[1].local_time_type_index() % 2].ut_offset && prescribed.is_dst == types[tr[1].local_time_type_index() % 2].is_dst);
    kani::cover!(s.rule_mismatch && n == 1 && prescribed.ut_offset != types[tr[0].local_time_type_index() % 2].ut_offset);
}

#[cfg(feature = "alloc")]
#[kani::proof]
#[kani::unwind(10)]
#[kani::stub(crate::timezone::RuleDay::unix_time, stub_rule_unix_time)]
#[kani::stub(crate::timezone::AlternateTime::find_local_time_type, stub_alt_find)]
fn c13_owned_equals_borrowed() {
    let types = [any_ltt_full(), any_ltt_full()];
    let k: usize = kani::any();
    kani::assume(k <= 2);
    let tr = [Transition::new(kani::any(), kani::any()), Transition::new(kani::any(), kani::any())];
    let n: usize = kani::any();
    kani::assume(n <= 2);
    let (ls, m) = any_leaps3();
    kani::assume(m <= 2);
    let has_rule: bool = kani::any();
    let rule = if has_rule { Some(TransitionRule::Fixed(any_ltt_full())) } else { None };
    let a = TimeZoneRef::new(&tr[..n], &types[..k], &ls[..m], &rule).map(|_| ());
    let b = TimeZone::new(tr[..n].to_vec(), types[..k].to_vec(), ls[..m].to_vec(), rule);
    match (&a, &b) {
        (Ok(()), Ok(z)) => {
            let zr = z.as_ref();
            assert!(zr.transitions().len() == n && zr.local_time_types().len() == k && zr.leap_seconds().len() == m);
            let i: usize = kani::any();
            if i < n {
                assert!(zr.transitions()[i] == tr[i]);
            }
            if i < k {
                assert!(same_ltt(&zr.local_time_types()[i], &types[i]));
            }
            if i < m {
                assert!(zr.leap_seconds()[i] == ls[i]);
            }
        }
        (Err(x), Err(y)) => assert!(core::mem::discriminant(x) == core::mem::discriminant(y) && match (x, y) {
            (TzError::TimeZone(p), TzError::TimeZone(q)) => core::mem::discriminant(p) == core::mem::discriminant(q),
            _ => true,
        }),
        _ => assert!(false),
    }
    kani::cover!(a.is_ok() && n == 2 && m == 2);
    kani::cover!(a.is_err());
    core::mem::forget(b);
}

// ------------------------------------------------------------------ C20: TZ value resolution over a nondeterministic virtual file system
#[cfg(feature = "alloc")]
mod c20 {
    use super::*;
    use crate::error::parse::{TzFileError, TzStringError};
    use alloc::boxed::Box;
    use alloc::string::String;
    use alloc::vec::Vec;
    use core::sync::atomic::{AtomicU8, AtomicUsize, Ordering as AO};

    static NCALLS: AtomicUsize = AtomicUsize::new(0);
    static LOG: [AtomicU8; 4] = [AtomicU8::new(0), AtomicU8::new(0), AtomicU8::new(0), AtomicU8::new(0)];
    static RESP: [AtomicU8; 4] = [AtomicU8::new(0), AtomicU8::new(0), AtomicU8::new(0), AtomicU8::new(0)];
    static NFMT: AtomicUsize = AtomicUsize::new(0);

    /// S_tzfile: the 1-byte token "T" stands for a valid TZif file, anything else is malformed (C08 is about the real parser)
    fn stub_parse_tz_file(bytes: &[u8]) -> Result<TimeZone, TzError> {
        if bytes.len() == 1 && bytes[0] == b'T' {
            Ok(TimeZone::utc())
        } else {
            Err(TzError::TzFile(TzFileError::InvalidMagicNumber))
        }
    }
    /// S_fmt_token: the k-th formatted path is the token "p<k>" (what it stands for is decided on the MIR, see props/c20.py)
    fn stub_format(_args: core::fmt::Arguments<'_>) -> String {
        let n = NFMT.fetch_add(1, AO::Relaxed);
        String::from(if n == 0 {
            "p0"
        } else if n == 1 {
            "p1"
        } else if n == 2 {
            "p2"
        } else {
            "p3"
        })
    }
    const ETC: u8 = 1;
    const ABS: u8 = 4;
    fn path_id(p: &str) -> u8 {
        if p == "p0" {
            10
        } else if p == "p1" {
            11
        } else if p == "p2" {
            12
        } else if p == "p3" {
            13
        } else if p == "/etc/localtime" {
            ETC
        } else if p == "/abs" {
            ABS
        } else {
            99
        }
    }
    fn read_fn(path: &str) -> Result<Vec<u8>, Box<dyn core::error::Error + Send + Sync + 'static>> {
        let n = NCALLS.fetch_add(1, AO::Relaxed);
        assert!(n < 4);
        LOG[n].store(path_id(path), AO::Relaxed);
        match RESP[n].load(AO::Relaxed) {
            0 => Ok(b"T".to_vec()),
            1 => Ok(b"g".to_vec()),
            _ => Err("unreadable".into()),
        }
    }
    fn any_fs() {
        let mut i = 0;
        while i < 4 {
            let r: u8 = kani::any();
            kani::assume(r <= 2);
            RESP[i].store(r, AO::Relaxed);
            i += 1;
        }
    }
    #[derive(PartialEq)]
    enum Class {
        Ok,
        TzFile,
        Io,
        TzString,
    }
    fn class(r: &Result<TimeZone, crate::Error>) -> Class {
        match r {
            Ok(_) => Class::Ok,
            Err(crate::Error::Io(_)) => Class::Io,
            Err(crate::Error::Tz(TzError::TzFile(_))) => Class::TzFile,
            Err(crate::Error::Tz(TzError::TzString(_))) => Class::TzString,
            Err(_) => {
                assert!(false);
                Class::Io
            }
        }
    }
    /// candidate list -> the reads that must happen, in order, up to and including the first readable file
    fn check(s: &str, dirs: &[&str], cands: &[u8], forced: bool, fallback_ok: Option<bool>) {
        any_fs();
        let st = TimeZoneSettings::new(dirs, read_fn);
        let r = st.parse_posix_tz(s);
        let n = NCALLS.load(AO::Relaxed);
        let mut k = 0;
        let mut first: Option<u8> = None;
        while k < cands.len() {
            assert!(n > k && LOG[k].load(AO::Relaxed) == cands[k]);
            let resp = RESP[k].load(AO::Relaxed);
            if resp != 2 {
                first = Some(resp);
                break;
            }
            k += 1;
        }
        let expected_reads = if first.is_some() { k + 1 } else { cands.len() };
        assert!(n == expected_reads);
        let c = class(&r);
        match first {
            Some(0) => assert!(c == Class::Ok),
            Some(_) => assert!(c == Class::TzFile),
            None => {
                if forced {
                    assert!(c == Class::Io);
                } else {
                    match fallback_ok {
                        Some(true) => assert!(c == Class::Ok),
                        Some(false) => assert!(c == Class::TzString),
                        None => assert!(false),
                    }
                }
            }
        }
        kani::cover!(cands.is_empty() || first == Some(0));
        kani::cover!(cands.is_empty() || first == Some(1));
        kani::cover!(first.is_none());
        core::mem::forget(r);
    }

    macro_rules! c20 {
        ($name:ident, $s:expr, $dirs:expr, $cands:expr, $forced:expr, $fb:expr) => {
            #[kani::proof]
            #[kani::unwind(16)]
            #[kani::stub(crate::parse::parse_tz_file, stub_parse_tz_file)]
            #[kani::stub(alloc::fmt::format, stub_format)]
            fn $name() {
                let dirs: &[&str] = &$dirs;
                let cands: &[u8] = &$cands;
                check($s, dirs, cands, $forced, $fb);
            }
        };
    }
    c20!(c20_localtime, "localtime", ["/a"], [ETC], true, None);
    c20!(c20_colon_relative_2dirs, ":X", ["/a", "/b"], [10, 11], true, None);
    c20!(c20_relative_2dirs_not_posix, "X", ["/a", "/b"], [10, 11], false, Some(false));
    c20!(c20_relative_3dirs_not_posix, "X", ["/a", "/b", "/c"], [10, 11, 12], false, Some(false));
    c20!(c20_absolute, "/abs", ["/a"], [ABS], false, Some(false));
    c20!(c20_colon_absolute, ":/abs", ["/a"], [ABS], true, None);
    c20!(c20_trimmed_fallback, " UTC0 ", ["/a"], [10], false, Some(true));
    c20!(c20_no_dirs_posix, "UTC0", [], [], false, Some(true));
    // a value is looked up exactly as given: whitespace is stripped only for the POSIX fallback, so a padded absolute path is a
    // relative name (one candidate under the directory, never a read of "/abs" itself)
    c20!(c20_padded_absolute_is_relative, " /abs", ["/a"], [10], false, Some(false));

    /// the empty value is refused without touching the file system
    #[kani::proof]
    #[kani::unwind(6)]
    #[kani::stub(crate::parse::parse_tz_file, stub_parse_tz_file)]
    #[kani::stub(alloc::fmt::format, stub_format)]
    fn c20_empty() {
        any_fs();
        let dirs = ["/a"];
        let st = TimeZoneSettings::new(&dirs, read_fn);
        let r = st.parse_posix_tz("");
        assert!(NCALLS.load(AO::Relaxed) == 0);
        assert!(matches!(&r, Err(crate::Error::Tz(TzError::TzString(TzStringError::Empty)))));
        core::mem::forget(r);
    }
}
