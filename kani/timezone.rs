//! Kani proof harnesses (overlay only, `cfg(kani)`): child module of `timezone`, so private items are reachable.
//! C03 (table lookup), C12 (leap-second conversions), C13 (zone constructor).
#![allow(dead_code, unused_imports, missing_docs, clippy::all)]
use super::*;
use crate::error::timezone::TimeZoneError;
use crate::error::TzError;

// ------------------------------------------------------------------ shared generators (order of kani::any() calls is
// part of the interface with lib/engb.py's concrete-playback decoder; keep it stable)
pub(crate) fn any_ltt() -> LocalTimeType {
    let off: i32 = kani::any();
    let dst: bool = kani::any();
    kani::assume(off != i32::MIN);
    LocalTimeType { ut_offset: off, is_dst: dst, time_zone_designation: None }
}

pub(crate) fn any_leaps3() -> ([LeapSecond; 3], usize) {
    let n: usize = kani::any();
    kani::assume(n <= 3);
    let ls = [LeapSecond::new(kani::any(), kani::any()), LeapSecond::new(kani::any(), kani::any()), LeapSecond::new(kani::any(), kani::any())];
    (ls, n)
}

/// stubs proving that rule arithmetic is not reached from table / fixed-rule zones (S_unreach)
pub(crate) fn stub_rule_unix_time(_s: &RuleDay, _y: i32, _t: i64) -> i64 {
    assert!(false);
    0
}
pub(crate) fn stub_alt_find<'a>(s: &'a AlternateTime, _t: i64) -> Result<&'a LocalTimeType, TzError> {
    assert!(false);
    Ok(s.std())
}

// ------------------------------------------------------------------ C12
/// Declarative specification: the correction in force at leap count `l` is that of the last record whose own
/// second has been reached: a record that RAISES the correction (inserted second) applies after its second
/// (`time < l`: the inserted second shares the UTC value of the following one), a record that LOWERS it (deleted
/// second) applies at its second (`time <= l`).
fn spec_corr(ls: &[LeapSecond], l: i64) -> i32 {
    let mut c = 0;
    let mut i = 0;
    while i < ls.len() {
        let rec = &ls[i];
        let lowers = rec.correction() < c;
        if rec.unix_leap_time() < l || (lowers && rec.unix_leap_time() == l) {
            c = rec.correction();
        } else {
            break;
        }
        i += 1;
    }
    c
}

/// UTC values that no leap count denotes (deleted by a negative leap second)
fn deleted(ls: &[LeapSecond], u: i64) -> bool {
    let mut c = 0i32;
    let mut i = 0;
    let mut r = false;
    while i < ls.len() {
        let rec = &ls[i];
        if rec.correction() < c && (rec.unix_leap_time() as i128 - c as i128) == u as i128 {
            r = true;
        }
        c = rec.correction();
        i += 1;
    }
    r
}

fn c12_body(only_insertions: bool, need_deletion: bool) {
    let (ls, n) = any_leaps3();
    let types = [LocalTimeType::utc()];
    let zone = match TimeZoneRef::new(&[], &types, &ls[..n], &None) {
        Ok(z) => z,
        Err(_) => return,
    };
    let ls = &ls[..n];
    let mut c = 0;
    let mut i = 0;
    let mut has_del = false;
    while i < n {
        if ls[i].correction() < c {
            has_del = true;
        }
        c = ls[i].correction();
        i += 1;
    }
    if only_insertions {
        kani::assume(!has_del);
    }
    if need_deletion {
        kani::assume(has_del);
    }
    let u: i64 = kani::any();
    let v: i64 = kani::any();
    let t: i64 = kani::any();
    // (1) leap count -> UTC is the declarative one; overflow is an error value
    let x = zone.unix_leap_time_to_unix_time(t);
    match t.checked_sub(spec_corr(ls, t) as i64) {
        Some(want) if t != i64::MIN => assert!(matches!(&x, Ok(g) if *g == want)),
        _ => assert!(matches!(&x, Err(TzError::OutOfRange))),
    }
    // (2) monotone
    let lu = zone.unix_time_to_unix_leap_time(u);
    let lv = zone.unix_time_to_unix_leap_time(v);
    if let (Ok(a), Ok(b)) = (&lu, &lv) {
        if u <= v {
            assert!(*a <= *b);
        }
    }
    if let Ok(a) = &lu {
        let a = *a;
        // (3) round trip for every instant that exists
        if !deleted(ls, u) {
            if let Ok(back) = zone.unix_leap_time_to_unix_time(a) {
                assert!(back == u);
            }
        }
        // (4) a transition recorded at count t is in force at u exactly from the UTC instant that t denotes
        if let Ok(xt) = &x {
            assert!((a >= t) == (u >= *xt));
        }
        kani::cover!(n == 3 && a != u);
    } else {
        assert!(matches!(lu, Err(TzError::OutOfRange)));
    }
    // (5) an inserted leap second shares the UTC value of the second that follows it
    let k: usize = kani::any();
    kani::assume(k < n);
    let prev = if k == 0 { 0 } else { ls[k - 1].correction() };
    if ls[k].correction() > prev && ls[k].unix_leap_time() < i64::MAX {
        let a = zone.unix_leap_time_to_unix_time(ls[k].unix_leap_time());
        let b = zone.unix_leap_time_to_unix_time(ls[k].unix_leap_time() + 1);
        if let (Ok(a), Ok(b)) = (a, b) {
            assert!(a == b);
        }
    }
    kani::cover!(n == 3);
    kani::cover!(n == 2 && (has_del || only_insertions));
}

#[kani::proof]
#[kani::unwind(6)]
fn c12_insertions() {
    c12_body(true, false);
}

#[kani::proof]
#[kani::unwind(6)]
fn c12_with_deletions() {
    c12_body(false, true);
}

/// public observable: the forward lookup switches type exactly at the UTC instant the transition's count denotes
#[kani::proof]
#[kani::unwind(6)]
#[kani::stub(crate::timezone::RuleDay::unix_time, stub_rule_unix_time)]
#[kani::stub(crate::timezone::AlternateTime::find_local_time_type, stub_alt_find)]
fn c12_lookup_switch() {
    let (ls, n) = any_leaps3();
    kani::assume(n <= 2);
    let types = [any_ltt(), any_ltt()];
    kani::assume(types[0].ut_offset != types[1].ut_offset);
    let tt: i64 = kani::any();
    let tr = [Transition::new(tt, 1)];
    let rule = Some(TransitionRule::Fixed(types[1]));
    let zone = match TimeZoneRef::new(&tr, &types, &ls[..n], &rule) {
        Ok(z) => z,
        Err(_) => return,
    };
    let u: i64 = kani::any();
    let want_switch = match tt.checked_sub(spec_corr(&ls[..n], tt) as i64) {
        Some(w) if tt != i64::MIN => w,
        _ => return,
    };
    match zone.find_local_time_type(u) {
        Ok(l) => {
            assert!((l.ut_offset == types[1].ut_offset) == (u >= want_switch));
            assert!(core::ptr::eq(l, &types[0]) || l.ut_offset == types[1].ut_offset);
        }
        Err(e) => assert!(matches!(e, TzError::OutOfRange)),
    }
    kani::cover!(n == 2 && u >= want_switch);
    kani::cover!(n == 2 && u < want_switch);
}
