"""Independent reference of the tzset(3)-style resolution rules (C20), used to judge native replays."""


def expected(tz, dirs, resp, posix_ok):
    """returns (paths read in order, result class). resp[i] in {0 valid, 1 malformed, 2 unreadable} for the i-th read.
    posix_ok(s) -> bool says whether the trimmed string is a valid POSIX description without extensions."""
    if tz == '':
        return [], 'TzString'
    if tz == 'localtime':
        cands, forced = ['/etc/localtime'], True
        name = None
    else:
        forced = tz.startswith(':')
        name = tz[1:] if forced else tz
        cands = [name] if name.startswith('/') else [f'{d}/{name}' for d in dirs]
    reads = []
    for i, p in enumerate(cands):
        reads.append(p)
        r = resp[i] if i < len(resp) else 2
        if r == 0:
            return reads, 'Ok'
        if r == 1:
            return reads, 'TzFile'
    if forced:
        return reads, 'Io'
    return reads, ('Ok' if posix_ok(tz.strip(' \t\n\x0c\r')) else 'TzString')
