"""Symbolic DST rules for Engine A (C04, C11) + conversion of solver models into native replay commands."""
from mir2smt import *
from calspec import *

H = 3600
DAY = 86400
WEEK = 7 * DAY
TAGS = {0: 'J', 1: 'Z', 2: 'M'}   # enum order of RuleDay: Julian1WithoutLeap, Julian0WithLeap, MonthWeekDay
NAMES = {0: 'Jn', 1: 'n', 2: 'Mm.w.d'}


def sym_ltt(h, window=True, i32=True):
    off = I(h + 'off', 'i32')
    if window:
        assume(AND(CMP('<', -25 * H, off), CMP('<', off, 26 * H)))
    return {'ut_offset': off, 'is_dst': B(h + 'isdst'), 'time_zone_designation': {'$d': 0, '$v': {}}}


def sym_ruleday(h, tag):
    """RuleDay value with concrete notation `tag` and symbolic numbers inside the constructors' ranges"""
    n1 = I(h + 'j1')
    n0 = I(h + 'j0')
    m = I(h + 'm')
    w = I(h + 'w')
    d = I(h + 'd')
    assume(CMP('<=', 1, n1), CMP('<=', n1, 365), CMP('<=', 0, n0), CMP('<=', n0, 365), CMP('<=', 1, m), CMP('<=', m, 12), CMP('<=', 1, w), CMP('<=', w, 5), CMP('<=', 0, d), CMP('<=', d, 6))
    return {'$d': tag, '$v': {'Julian1WithoutLeap': [[n1]], 'Julian0WithLeap': [[n0]], 'MonthWeekDay': [{'month': m, 'week': w, 'week_day': d}]}}


def day_vars(h):
    return [h + 'j1', h + 'j0', h + 'm', h + 'w', h + 'd']


def day_cmd(model, h, tag):
    if tag == 0:
        return f'J {model.get(h + "j1", 1)}'
    if tag == 1:
        return f'Z {model.get(h + "j0", 0)}'
    return f'M {model.get(h + "m", 1)} {model.get(h + "w", 1)} {model.get(h + "d", 0)}'


def alt_cmd(model, ts, te, std='std', dst='dst'):
    """arguments of the native `alt_new` / `alt_find` commands from a solver model"""
    return (f'{model.get(std + "off", 0)} 0 - {model.get(dst + "off", 0)} 1 - {day_cmd(model, "s", ts)} {model.get("st", 0)} {day_cmd(model, "e", te)} {model.get("et", 0)}')


def spec_rule_instant(D, day, tag, y, dt, g=True):
    """what the notation says (DESIGN C04 layer 1). D = real days_since_unix_epoch (pinned by C02).
    Returns (instant term, side-condition on the witness k for Mm.w.d or True)."""
    if tag == 0:
        n = day['$v']['Julian1WithoutLeap'][0][0]
        leapadj = ITE(AND(sleap(y), CMP('>=', n, 60)), 1, 0, 'Int')
        return ADD(ARI('*', ADD(D([y, 1, 1], g), n, -1, leapadj), DAY), dt), True
    if tag == 1:
        n = day['$v']['Julian0WithLeap'][0][0]
        return ADD(ARI('*', ADD(D([y, 1, 1], g), n), DAY), dt), True
    mwd = day['$v']['MonthWeekDay'][0]
    m, w, d = mwd['month'], mwd['week'], mwd['week_day']
    k = I('k')
    first = D([y, m, 1], g)
    dimv = sdim(y, m)
    wd = fmod(ADD(first, k, -1, 4), 7)
    cond = AND(CMP('<=', 1, k), CMP('<=', k, dimv), CMP('=', wd, d),
               ITE(CMP('<', w, 5), AND(CMP('<', ARI('*', 7, ARI('-', w, 1)), k), CMP('<=', k, ARI('*', 7, w))), CMP('>', k, ARI('-', dimv, 7)), 'Bool'))
    return ADD(ARI('*', ADD(first, k, -1), DAY), dt), cond
