"""Independent python reference for zones WITHOUT DST rules (table + optional fixed rule + leap seconds):
forward lookup and search, used only to judge native replays of Kani counterexamples."""
import calref


class Zone:
    def __init__(s, tr, types, leaps, rule):
        s.tr, s.types, s.leaps, s.rule = tr, types, leaps, rule

    def cmd(s):
        r = 'none' if not s.rule else f'fixed {s.rule[1]} {s.rule[2]} -'
        z = f'T {len(s.tr)} ' + ' '.join(f'{a} {b}' for a, b in s.tr) + f' L {len(s.types)} ' + ' '.join(f'{o} {d} -' for o, d in s.types) + f' S {len(s.leaps)} ' + ' '.join(f'{a} {b}' for a, b in s.leaps) + f' R {r}'
        return ' '.join(z.split())

    def corr_at_count(s, l):
        c = 0
        for (t, k) in s.leaps:
            if t < l or (k < c and t == l):
                c = k
            else:
                break
        return c

    def l2u(s, l):
        return l - s.corr_at_count(l)

    def lookup(s, u):
        """(offset, isdst) or None when no local time type is available"""
        last = None
        for i, (t, idx) in enumerate(s.tr):
            if s.l2u(t) <= u:
                last = i
        if not s.tr or last == len(s.tr) - 1:
            if s.rule:
                return (s.rule[1], s.rule[2])
            return s.types[0] if not s.tr else None
        return s.types[s.tr[last][1]] if last is not None else s.types[0]

    def instants_showing(s, c):
        """all UTC instants u with u + offset(u) == c"""
        offs = {o for o, d in s.types} | ({s.rule[1]} if s.rule else set())
        out = []
        for o in sorted(offs, reverse=True):
            u = c - o
            l = s.lookup(u)
            if l is not None and l[0] == o and u not in out:
                out.append(u)
        return sorted(out)

    def gaps(s, c):
        out = []
        for g, (t, idx) in enumerate(s.tr):
            if g + 1 == len(s.tr) and not s.rule:
                continue
            T = s.l2u(t)
            ob = s.types[0][0] if g == 0 else s.types[s.tr[g - 1][1]][0]
            oa = s.types[idx][0]
            if T + ob <= c < T + oa:
                out.append(T)
        return sorted(out)


def judge_search(nat, z, c):
    """run the real search natively for the civil time with count c and compare with the reference"""
    if not (calref.MIN_T <= c <= calref.MAX_T):
        return None
    y, mo, d, h, mi, s = calref.gmtime(c)[:6]
    cmd = f'find {z.cmd()} {y} {mo} {d} {h} {mi} {s} 5 8'
    out = nat.both([cmd])[0]
    for o in out:
        if o.startswith('err zone') or o.startswith('err parse'):
            return None
        if o.startswith('panic'):
            return f'search panics: {cmd}', {'cmd': cmd, 'kind': 'panic'}
        a = o.split(' || ')[0]
        if not a.startswith('ok'):
            continue
        entries = [e.strip() for e in a[3:].split(' ; ') if e.strip() and not e.strip().startswith('u=')]
        normals = sorted(int(e.split()[8]) for e in entries if e.startswith('N '))
        skipped = sorted(int(e.split()[8]) for e in entries if e.startswith('S '))
        want_n = [u for u in z.instants_showing(c) if calref.MIN_T <= u <= calref.MAX_T]
        want_s = z.gaps(c)
        order = [int(e.split()[8]) for e in entries]
        if normals != want_n:
            return (f'zone [{z.cmd()}], local time {y}-{mo}-{d} {h}:{mi}:{s}: search returns valid instants {normals}, the instants showing that local time are {want_n}', {'cmd': cmd, 'kind': 'normals', 'zone': z.__dict__, 'c': c})
        if skipped != want_s:
            return (f'zone [{z.cmd()}], local time {y}-{mo}-{d} {h}:{mi}:{s}: search reports gaps at {skipped}, the gaps containing it are at {want_s}', {'cmd': cmd, 'kind': 'gaps', 'zone': z.__dict__, 'c': c})
        if order != sorted(order) or len(set(normals)) != len(normals):
            return (f'zone [{z.cmd()}]: results not in ascending order / duplicated valid instant: {order}', {'cmd': cmd, 'kind': 'order', 'zone': z.__dict__, 'c': c})
    return None
