#!/usr/bin/env python3
"""Engine A: bounded VC generation from rustc's MIR dump (-Zunpretty=mir) to SMT-LIB (Int).

The MIR text of /repo's *current* source is parsed, the selected functions are symbolically
executed (CFG unrolled into a DAG, loops bounded with an unwinding obligation, crate-local
calls inlined and memoised, `core` calls replaced by the small trusted models in `builtin`),
machine integers become SMT Ints and every overflow / bounds / division / panic site of the
`-C overflow-checks=on` MIR becomes a proof obligation.  See DESIGN.md section 2.
"""
import re, itertools, glob, os

INT_T = {'i8': (8, 1), 'i16': (16, 1), 'i32': (32, 1), 'i64': (64, 1), 'i128': (128, 1), 'isize': (64, 1),
         'u8': (8, 0), 'u16': (16, 0), 'u32': (32, 0), 'u64': (64, 0), 'u128': (128, 0), 'usize': (64, 0)}


def rng(t):
    n, s = INT_T[t]
    return (-(1 << (n - 1)), (1 << (n - 1)) - 1) if s else (0, (1 << n) - 1)


class Unsupported(Exception):
    pass


# ---------------------------------------------------------------- term store
class Ctx:
    """SSA store of SMT definitions with hash-consing; one per encoding session."""

    def __init__(s):
        s.defs = {}      # name -> (sort, expr or None)
        s.order = []     # names in creation order
        s.cache = {}     # (sort, expr) -> name
        s.bools = set()
        s.n = 0
        s.obl = []       # (guard, cond, description, kind)
        s.pre = []       # global assumptions (terms)
        s.funs = []      # raw declarations (uninterpreted functions)

    def fresh(s, sort, expr=None, hint='v'):
        if expr is not None:
            k = (sort, expr)
            if k in s.cache:
                return s.cache[k]
        s.n += 1
        if expr is None and hint != 'v' and hint not in s.defs and re.match(r'^[A-Za-z][A-Za-z0-9_]*$', hint) and not re.match(r'^v\d+$', hint):
            nm = hint
        else:
            nm = f'{hint}_{s.n}' if expr is None else f'v{s.n}'
        assert nm not in s.defs
        s.defs[nm] = (sort, expr)
        s.order.append(nm)
        if expr is not None:
            s.cache[(sort, expr)] = nm
        if sort == 'Bool':
            s.bools.add(nm)
        return nm


C = Ctx()


def reset():
    global C
    C = Ctx()
    return C


def sm(x):
    if x is True:
        return 'true'
    if x is False:
        return 'false'
    if isinstance(x, int):
        return str(x) if x >= 0 else f'(- {-x})'
    return x


def isc(x):
    return isinstance(x, (int, bool))


def isbool(x):
    return isinstance(x, bool) or (isinstance(x, str) and x in C.bools)


def named(sort, expr):
    return C.fresh(sort, expr)


def I(hint, ty=None):
    """fresh symbolic integer input, optionally constrained to a Rust integer type"""
    v = C.fresh('Int', None, hint)
    if ty:
        C.pre.append(inrange(v, ty))
    return v


def B(hint):
    return C.fresh('Bool', None, hint)


def assume(*terms):
    """global assumption of the current session (always use this, never a stale `C` imported elsewhere)"""
    for t in terms:
        if t is not True:
            C.pre.append(t)


def AND(*a):
    a = [x for x in a if x is not True]
    if any(x is False for x in a):
        return False
    a = list(dict.fromkeys(a))
    if not a:
        return True
    if len(a) == 1:
        return a[0]
    return named('Bool', '(and ' + ' '.join(map(sm, a)) + ')')


def OR(*a):
    a = [x for x in a if x is not False]
    if any(x is True for x in a):
        return True
    a = list(dict.fromkeys(a))
    if not a:
        return False
    if len(a) == 1:
        return a[0]
    return named('Bool', '(or ' + ' '.join(map(sm, a)) + ')')


def NOT(a):
    if isc(a):
        return not a
    return named('Bool', f'(not {a})')


def IMP(a, b):
    return OR(NOT(a), b)


def IFF(a, b):
    if isc(a) and isc(b):
        return bool(a) == bool(b)
    if a is True:
        return b
    if b is True:
        return a
    if a is False:
        return NOT(b)
    if b is False:
        return NOT(a)
    return named('Bool', f'(= {sm(a)} {sm(b)})')


def ITE(c, a, b, sort=None):
    if c is True:
        return a
    if c is False:
        return b
    if isc(a) and isc(b) and a == b and type(a) == type(b):
        return a
    if isinstance(a, str) and isinstance(b, str) and a == b:
        return a
    if sort is None:
        sort = 'Bool' if (isbool(a) or isbool(b)) else 'Int'
    return named(sort, f'(ite {sm(c)} {sm(a)} {sm(b)})')


def ARI(op, a, b):
    if isc(a) and isc(b):
        return {'+': a + b, '-': a - b, '*': a * b}[op]
    if op == '+' and a == 0 and isinstance(a, int):
        return b
    if op in '+-' and isinstance(b, int) and b == 0:
        return a
    if op == '*' and ((isinstance(a, int) and a == 1)):
        return b
    if op == '*' and ((isinstance(b, int) and b == 1)):
        return a
    if op == '*' and ((isinstance(a, int) and a == 0) or (isinstance(b, int) and b == 0)):
        return 0
    return named('Int', f'({op} {sm(a)} {sm(b)})')


def ADD(*a):
    r = 0
    for x in a:
        r = ARI('+', r, x)
    return r


def CMP(op, a, b):
    if isc(a) and isc(b):
        return {'=': a == b, '<': a < b, '<=': a <= b, '>': a > b, '>=': a >= b}[op]
    if isinstance(a, str) and isinstance(b, str) and a == b:
        return op in ('=', '<=', '>=')
    return named('Bool', f'({op} {sm(a)} {sm(b)})')


def EQ(a, b):
    if isbool(a) or isbool(b):
        return IFF(a, b)
    return CMP('=', a, b)


def NE(a, b):
    return NOT(EQ(a, b))


def inrange(v, t):
    lo, hi = rng(t)
    return AND(CMP('<=', lo, v), CMP('<=', v, hi))


def fdiv(a, b):
    """floor division (SMT div) for positive constant divisor"""
    if isc(a) and isc(b):
        return a // b
    assert isinstance(b, int) and b > 0
    return named('Int', f'(div {sm(a)} {b})')


def fmod(a, b):
    if isc(a) and isc(b):
        return a % b
    assert isinstance(b, int) and b > 0
    return named('Int', f'(mod {sm(a)} {b})')


def tdiv(a, b):
    """Rust's truncating division"""
    if isc(a) and isc(b):
        q = abs(a) // abs(b)
        return q if (a >= 0) == (b > 0) else -q
    if isinstance(b, int) and not isinstance(b, bool) and b > 0:
        return named('Int', f'(ite (>= {sm(a)} 0) (div {sm(a)} {sm(b)}) (- (div (- {sm(a)}) {sm(b)})))')
    return named('Int', f'(ite (= (>= {sm(a)} 0) (> {sm(b)} 0)) (div (abs {sm(a)}) (abs {sm(b)})) (- (div (abs {sm(a)}) (abs {sm(b)}))))')


def trem(a, b):
    return ARI('-', a, ARI('*', b, tdiv(a, b)))


def UF(name, argsorts, ret):
    d = f'(declare-fun {name} ({" ".join(argsorts)}) {ret})'
    if d not in C.funs:
        C.funs.append(d)

    def app(*args):
        return named(ret, f'({name} {" ".join(sm(a) for a in args)})')
    return app


_tok = re.compile(r'[A-Za-z_][A-Za-z0-9_]*')


def emit(roots, extra_pre=(), logic='ALL', get=None, pre=None):
    """SMT-LIB script asserting every root term, with the cone of influence of definitions."""
    pre = list(C.pre if pre is None else pre) + list(extra_pre)
    need = set()
    stack = [r for r in list(roots) + pre if isinstance(r, str)] + [g for g in (get or []) if isinstance(g, str)]
    while stack:
        t = stack.pop()
        for nm in _tok.findall(t):
            if nm in C.defs and nm not in need:
                need.add(nm)
                e = C.defs[nm][1]
                if e is not None:
                    stack.append(e)
    out = [f'(set-logic {logic})'] + list(C.funs)
    for nm in C.order:
        if nm in need:
            sort, e = C.defs[nm]
            out.append(f'(declare-const {nm} {sort})')
            if e is not None:
                out.append(f'(assert (= {nm} {e}))')
    for p in pre:
        if p is not True:
            out.append(f'(assert {sm(p)})')
    for r in roots:
        out.append(f'(assert {sm(r)})')
    out.append('(check-sat)')
    if get:
        out.append('(get-value (' + ' '.join(sm(g) for g in get if isinstance(g, str)) + '))')
    return '\n'.join(out) + '\n', len(need)


# ---------------------------------------------------------------- MIR parsing
class Fn:
    pass


class Mir:
    def __init__(s, mir_text, srcroot):
        s.srcroot = srcroot.rstrip('/') + '/'
        s._implcache = {}
        s.enums, s.structs = load_decls(os.path.join(srcroot, 'src'))
        s.items = s.parse(mir_text)

    def canon(s, name):
        def rep(m):
            key = (m.group(1), int(m.group(2)))
            if key not in s._implcache:
                try:
                    line = open(s.srcroot + m.group(1)).read().split('\n')[key[1] - 1]
                    mm = re.search(r'impl(?:<[^>]*>)?\s+(?:[\w:]+(?:<[^>]*>)?\s+for\s+)?(\w+)', line)
                    s._implcache[key] = mm.group(1) if mm and 'impl' in line else None
                except Exception:
                    s._implcache[key] = None
            return s._implcache[key] or m.group(0)
        return re.sub(r'<impl at ([^:>]+):(\d+):\d+: \d+:\d+>', rep, name)

    def parse(s, txt):
        items = {}
        lines = txt.split('\n')
        i = 0
        ctfe = False
        while i < len(lines):
            l = lines[i]
            if l.startswith('// MIR FOR CTFE'):
                ctfe = True
                i += 1
                continue
            m = re.match(r'^(fn|const|static) (.+)$', l)
            if not m:
                i += 1
                continue
            kind = m.group(1)
            rest = m.group(2)
            if kind == 'const' and not rest.endswith('{'):
                mm = re.match(r'^(.+): (.+?) = const (.+);$', rest)
                f = Fn()
                f.kind = 'constval'
                f.name = s.canon(mm.group(1))
                f.ty = mm.group(2)
                f.val = mm.group(3)
                items.setdefault(f.name, f)
                i += 1
                continue
            f = Fn()
            f.kind = kind
            f.ctfe = ctfe
            ctfe = False
            if kind == 'fn':
                mm = re.match(r'^(.+?)\((.*)\) -> (.+) \{$', rest)
                if not mm:
                    i += 1
                    continue
                f.name = mm.group(1)
                f.params = []
                f.ret = mm.group(3)
                for pm in re.finditer(r'(_\d+): ', mm.group(2)):
                    f.params.append(pm.group(1))
                f.sig = rest
            else:
                mm = re.match(r'^(.+): (.+?) = \{$', rest)
                if not mm:
                    i += 1
                    continue
                f.name = mm.group(1)
                f.params = []
                f.ret = mm.group(2)
                f.sig = rest
            f.rawname = f.name
            f.name = s.canon(f.name)
            f.types = {}
            f.blocks = {}
            f.debug = {}
            i += 1
            cur = None
            while i < len(lines) and lines[i] != '}':
                st = lines[i].strip()
                mm = re.match(r'^let (?:mut )?(_\d+): (.+);$', st)
                if mm:
                    f.types[mm.group(1)] = mm.group(2)
                md = re.match(r'^debug (\w+) => (.+);$', st)
                if md:
                    f.debug[md.group(1)] = md.group(2)
                mm = re.match(r'^(bb\d+)(?: \(cleanup\))?: \{$', st)
                if mm:
                    cur = mm.group(1)
                    f.blocks[cur] = []
                elif cur and st and st != '}' and not st.startswith(('StorageLive', 'StorageDead', 'ConstEvalCounter', '//', 'debug', 'scope', 'FakeRead', 'PlaceMention', 'nop', 'Retag', 'AscribeUserType', 'Coverage')):
                    f.blocks[cur].append(st)
                elif st == '}':
                    if lines[i].startswith('    }'):
                        cur = None
                i += 1
            if kind == 'fn':
                depth = 0
                cur = ''
                parts = []
                for ch in rest[rest.index('(') + 1:rest.rfind(') ->')]:
                    if ch in '(<[':
                        depth += 1
                    if ch in ')>]':
                        depth -= 1
                    if ch == ',' and depth == 0:
                        parts.append(cur)
                        cur = ''
                    else:
                        cur += ch
                if cur.strip():
                    parts.append(cur)
                for p in parts:
                    if ': ' in p and p.strip().startswith('_'):
                        a, b = p.strip().split(': ', 1)
                        f.types[a] = b
            f.types['_0'] = f.ret
            key = f.name
            if key in items and kind == 'fn':
                if items[key].kind == 'fn' and items[key].ctfe and not f.ctfe:
                    f.ctfe_twin = items[key]
                    items[key] = f
                elif items[key].kind == 'fn' and f.ctfe and not items[key].ctfe:
                    items[key].ctfe_twin = f
            else:
                items[key] = f
            i += 1
        return items

    def find(s, suffix, sigpart=None):
        c = [f for n, f in s.items.items() if (n == suffix or n.endswith('::' + suffix)) and (sigpart is None or sigpart in getattr(f, 'sig', ''))]
        if len(c) != 1:
            raise Unsupported(f'ambiguous/missing MIR item {suffix} {sigpart}: {[x.name for x in c]}')
        return c[0]

    def text_of(s, suffix, sigpart=None):
        f = s.find(suffix, sigpart)
        return '\n'.join(f'{b}: ' + ' ; '.join(st) for b, st in f.blocks.items())


def load_decls(srcdir):
    enums = {'Option': {'None': 0, 'Some': 1}, 'Result': {'Ok': 0, 'Err': 1}, 'Ordering': {'Less': -1, 'Equal': 0, 'Greater': 1}}
    structs = {}
    for p in sorted(glob.glob(srcdir + '/**/*.rs', recursive=True)):
        src = open(p).read()
        for m in re.finditer(r'struct (\w+)(?:<[^>]*>)?\s*\{(.*?)\n\}', src, re.S):
            fs = []
            for line in m.group(2).split('\n'):
                mm = re.match(r'^\s*(?:pub(?:\([a-z]+\))? )?(\w+):', line)
                if mm:
                    fs.append(mm.group(1))
            structs[frozenset(fs)] = fs
            structs[m.group(1)] = fs
        for m in re.finditer(r'enum (\w+)\s*\{(.*?)\n\}', src, re.S):
            vs = []
            for line in m.group(2).split('\n'):
                line = line.strip()
                mm = re.match(r'^(\w+)\s*(\(|\{|,|$)', line)
                if mm and not line.startswith(('//', '#')):
                    vs.append(mm.group(1))
            enums[m.group(1)] = {v: i for i, v in enumerate(vs)}
    return enums, structs


# ---------------------------------------------------------------- values
def merge(c, a, b):
    """structural ite(c, a, b)"""
    if a is None:
        return b
    if b is None:
        return a
    if isinstance(a, dict) and isinstance(b, dict):
        if '$a' in a or '$a' in b:
            return {'$a': merge(c, a.get('$a'), b.get('$a')), '$len': merge(c, a.get('$len'), b.get('$len'))}
        if '$d' in a or '$d' in b:
            r = {'$d': merge(c, a.get('$d'), b.get('$d')), '$v': {}}
            for k in list(dict.fromkeys(list(a.get('$v', {})) + list(b.get('$v', {})))):
                r['$v'][k] = merge(c, a.get('$v', {}).get(k), b.get('$v', {}).get(k))
            return r
        return {k: merge(c, a.get(k), b.get(k)) for k in list(dict.fromkeys(list(a) + list(b)))}
    if isinstance(a, list) and isinstance(b, list):
        return [merge(c, x, y) for x, y in itertools.zip_longest(a, b)]
    if isinstance(a, (list, dict)) or isinstance(b, (list, dict)):
        raise Unsupported(f'merge of differently shaped values {a!r} / {b!r}')
    return ITE(c, a, b)


def vkey(v):
    """hashable key of a value (for call memoisation)"""
    if isinstance(v, dict):
        return ('d',) + tuple((k, vkey(x)) for k, x in sorted(v.items(), key=lambda kv: str(kv[0])))
    if isinstance(v, list):
        return ('l',) + tuple(vkey(x) for x in v)
    return (type(v).__name__, v)


def enum_val(enums, en, var, payload=None):
    return {'$d': enums[en][var], '$v': ({var: payload} if payload is not None else {})}


def is_variant(v, enums, en, var):
    return CMP('=', v['$d'], enums[en][var])


class Event:
    """output event recorded by the fmt abstraction"""
    def __init__(s, guard, kind, template, args, ok=None):
        s.guard, s.kind, s.template, s.args, s.ok = guard, kind, template, args, ok


class Exec:
    def __init__(s, mir, unwind=None, summaries=None):
        s.mir = mir
        s.items = mir.items
        s.enums = mir.enums
        s.structs = mir.structs
        s.unwind = unwind or {}
        s.default_unwind = 16
        s.summaries = summaries or {}
        s.memo = {}
        s.encoded = []       # names of functions actually encoded
        s.events = []        # fmt output events
        s.stats = {'calls': 0, 'memo_hits': 0}

    # ---- constants
    def const(s, txt, fn):
        txt = txt.strip()
        if txt in ('true', 'false'):
            return txt == 'true'
        if txt == '()':
            return {}
        m = re.match(r'^(-?\d+)_([iu](?:8|16|32|64|128|size))$', txt)
        if m:
            return int(m.group(1))
        m = re.match(r'^([iu](?:8|16|32|64|128|size))::(MIN|MAX)$', txt)
        if m:
            return rng(m.group(1))[0 if m.group(2) == 'MIN' else 1]
        m = re.match(r'^(?:(?:core|std)::num::<impl )?([iu](?:8|16|32|64|128|size))>?::BITS$', txt)
        if m:
            return INT_T[m.group(1)][0]
        m = re.match(r'^(?:core|std)::num::<impl ([iu](?:8|16|32|64|128|size))>::(MIN|MAX)$', txt)
        if m:
            return rng(m.group(1))[0 if m.group(2) == 'MIN' else 1]
        m = re.match(r"^b'(\\?.+)'$", txt)
        if m:
            c = m.group(1)
            esc = {'\\n': 10, '\\t': 9, '\\r': 13, '\\0': 0, "\\'": 39, '\\\\': 92}
            if c in esc:
                return esc[c]
            mx = re.match(r'^\\x([0-9a-fA-F]{2})$', c)
            if mx:
                return int(mx.group(1), 16)
            if len(c) == 1:
                return ord(c)
        m = re.match(r"^'(.)'$", txt)
        if m:
            return ord(m.group(1))
        if txt.startswith('b"') or txt.startswith('"'):
            return {'$bytes': txt}
        if txt.startswith('ZeroSized'):
            return {'$zst': txt}
        mv = re.match(r'^([\w:<>, ()\[\];&\']+?)::(\w+)\((.*)\)$', s.strip_generics(txt))
        if mv:
            en = mv.group(1).split('::')[-1]
            if en in s.enums and mv.group(2) in s.enums[en]:
                return {'$d': s.enums[en][mv.group(2)], '$v': {mv.group(2): [{'$opaque': mv.group(3)}]}}
        if '::' in txt:
            en, var = txt.rsplit('::', 1)
            en = re.sub(r'::<.*>$', '', en).split('::')[-1]
            if en in s.enums and var in s.enums[en]:
                return {'$d': s.enums[en][var], '$v': {}}
        if 'promoted[' in txt:
            m = re.match(r'^<?(.+?)>?::promoted\[(\d+)\]$', txt)
            cands = [f for n, f in s.items.items() if n == fn.name + f'::promoted[{m.group(2)}]']
            if len(cands) != 1:
                raise Unsupported(f'promoted {txt} of {fn.name}')
            return s.call_item(cands[0], [])
        ctxt = s.mir.canon(txt)
        try:
            it = s.mir.find(ctxt)
        except Unsupported:
            it = s.mir.find('::'.join(ctxt.split('::')[-2:]))
        if it.kind == 'constval':
            return s.const(it.val, it)
        return s.call_item(it, [])

    # ---- places
    def parse_place(s, t):
        t = t.strip()
        pos = 0

        def P():
            nonlocal pos
            if t[pos] == '(':
                pos += 1
                if t[pos] == '*':
                    pos += 1
                    base = P()
                    assert t[pos] == ')', t
                    pos += 1
                    base = base + [('deref',)]
                else:
                    base = P()
                    if t.startswith(' as ', pos):
                        pos += 4
                        j = t.index(')', pos)
                        v = t[pos:j]
                        pos = j + 1
                        base = base + [('variant', v)]
                    elif t[pos] == '.':
                        pos += 1
                        j = t.index(':', pos)
                        fld = t[pos:j]
                        pos = j + 1
                        depth = 1
                        while depth > 0:
                            if t[pos] in '([':
                                depth += 1
                            if t[pos] in ')]':
                                depth -= 1
                            pos += 1
                        base = base + [('field', fld)]
                    else:
                        raise Unsupported('place ' + t)
            elif t[pos] == '_':
                m = re.match(r'_\d+', t[pos:])
                base = [('local', m.group(0))]
                pos += len(m.group(0))
            elif t[pos] == '*':
                pos += 1
                base = P() + [('deref',)]
            else:
                raise Unsupported('place? ' + t + ' @' + str(pos))
            while pos < len(t) and t[pos] == '[':
                j = t.index(']', pos)
                inner = t[pos + 1:j]
                pos = j + 1
                mm = re.match(r'^(\d+) of (\d+)$', inner)
                m2 = re.match(r'^(\d+)\.\.(\d+)$', inner)
                m3 = re.match(r'^(\d+):-(\d+)$', inner)
                m4 = re.match(r'^-(\d+) of (\d+)$', inner)
                if mm:
                    base = base + [('cidx', int(mm.group(1)))]
                elif m4:
                    base = base + [('cidx', -int(m4.group(1)))]
                elif m2:
                    base = base + [('sub', int(m2.group(1)), int(m2.group(2)))]
                elif m3:
                    base = base + [('subend', int(m3.group(1)), int(m3.group(2)))]
                else:
                    base = base + [('index', inner)]
            return base
        r = P()
        if pos != len(t):
            raise Unsupported(f'place trailing {t!r} @{pos}')
        return r

    def read(s, env, steps):
        if steps[0][1] not in env:
            raise Unsupported(f'read of unset local {steps[0][1]}')
        v = env[steps[0][1]]
        for st in steps[1:]:
            if st[0] == 'deref':
                pass
            elif st[0] == 'field':
                if isinstance(v, dict) and st[1].isdigit() and st[1] not in v:
                    ks = frozenset(k for k in v.keys())
                    if ks not in s.structs:
                        raise Unsupported(f'field index {st[1]} of unknown struct {sorted(v.keys())}')
                    v = v[s.structs[ks][int(st[1])]]
                else:
                    v = v[st[1]] if isinstance(v, dict) else v[int(st[1])]
            elif st[0] == 'variant':
                v = v['$v'][st[1]]
            elif st[0] == 'cidx':
                arr = v['$a'] if isinstance(v, dict) else v
                v = arr[st[1]]
            elif st[0] == 'sub':
                arr = v['$a'] if isinstance(v, dict) else v
                v = arr[st[1]:st[2]]
            elif st[0] == 'subend':
                arr = v['$a'] if isinstance(v, dict) else v
                v = arr[st[1]:len(arr) - st[2]]
            elif st[0] == 'index':
                idx = env[st[1]]
                arr = v['$a'] if isinstance(v, dict) else v
                if isc(idx):
                    v = arr[idx]
                else:
                    r = arr[-1]
                    for k in range(len(arr) - 2, -1, -1):
                        r = merge(CMP('=', idx, k), arr[k], r)
                    v = r
        return v

    def write(s, env, steps, val):
        if len(steps) == 1:
            env[steps[0][1]] = val
            return

        def upd(v, sts):
            if not sts:
                return val
            st = sts[0]
            if st[0] == 'deref':
                raise Unsupported('assignment through a reference')
            if st[0] == 'field':
                if isinstance(v, list):
                    v = list(v)
                    v[int(st[1])] = upd(v[int(st[1])], sts[1:])
                    return v
                v = dict(v or {})
                key = st[1]
                if key.isdigit() and key not in v and v:
                    ks = frozenset(v.keys())
                    if ks in s.structs:
                        key = s.structs[ks][int(key)]
                v[key] = upd(v.get(key), sts[1:])
                return v
            if st[0] == 'index':
                idx = env[st[1]]
                arr = list(v)
                if isc(idx):
                    arr[idx] = upd(arr[idx], sts[1:])
                    return arr
                return [merge(CMP('=', idx, k), upd(arr[k], sts[1:]), arr[k]) for k in range(len(arr))]
            if st[0] == 'variant':
                v = dict(v or {'$d': None, '$v': {}})
                vv = dict(v.get('$v', {}))
                vv[st[1]] = upd(vv.get(st[1]), sts[1:])
                v['$v'] = vv
                return v
            raise Unsupported('write ' + str(st))
        env[steps[0][1]] = upd(env.get(steps[0][1]), steps[1:])

    def operand(s, env, t, fn):
        t = t.strip()
        if t.startswith('no_retag '):
            t = t[9:].strip()
        if t.startswith('const '):
            return s.const(t[6:], fn)
        if t.startswith(('copy ', 'move ')):
            return s.read(env, s.parse_place(t[5:]))
        raise Unsupported('operand ' + t)

    @staticmethod
    def split_call(t):
        """'path::to::<A as B<()>>::f(args)' -> (callee, argument text): the argument list is the LAST balanced parenthesis group"""
        assert t.endswith(')'), t
        depth = 0
        q = False
        for i in range(len(t) - 1, -1, -1):
            ch = t[i]
            if ch == '"' and (i == 0 or t[i - 1] != '\\'):
                q = not q
            if q:
                continue
            if ch == ')':
                depth += 1
            elif ch == '(':
                depth -= 1
                if depth == 0:
                    return t[:i], t[i + 1:-1]
        raise Unsupported('call syntax ' + t)

    @staticmethod
    def split_args(t):
        depth = 0
        cur = ''
        parts = []
        q = False
        prev = ''
        for ch in t:
            if ch == '"' and prev != '\\':
                q = not q
            if not q:
                if ch in '([{<':
                    depth += 1
                if ch in ')]}>':
                    depth -= 1
                if ch == ',' and depth == 0:
                    parts.append(cur.strip())
                    cur = ''
                    prev = ch
                    continue
            cur += ch
            prev = ch
        if cur.strip():
            parts.append(cur.strip())
        return parts

    def optype(s, t, fn):
        t = t.strip()
        m = re.search(r'_([iu](?:8|16|32|64|128|size))$', t)
        if t.startswith('const ') and m:
            return m.group(1)
        if t.startswith(('copy ', 'move ')):
            pl = t[5:].strip()
            if re.match(r'^_\d+$', pl):
                return fn.types.get(pl)
            m = re.search(r': ([^:()]+)\)$', pl)
            if m:
                return m.group(1)
        if t.startswith('const '):
            nm = t[6:].strip()
            if nm in ('true', 'false'):
                return 'bool'
            try:
                it = s.mir.find(s.mir.canon(nm).split('::')[-1])
                return it.ty if it.kind == 'constval' else it.ret
            except Unsupported:
                pass
            m = re.match(r'^([iu]\d+|[iu]size)::', nm)
            if m:
                return m.group(1)
        return None

    @staticmethod
    def strip_generics(rv):
        if '::<' not in rv:
            return rv
        out = ''
        i = 0
        while i < len(rv):
            if rv.startswith('::<', i) and not rv.startswith('::<impl ', i):
                d = 0
                j = i + 2
                while True:
                    if rv[j] == '<':
                        d += 1
                    if rv[j] == '>' and rv[j - 1] != '-':
                        d -= 1
                        if d == 0:
                            break
                    j += 1
                i = j + 1
            else:
                out += rv[i]
                i += 1
        return out

    def rvalue(s, env, rv, fn, g, dest_ty):
        rv = rv.strip()
        if not rv.startswith(('copy ', 'move ', 'const ', '&', 'no_retag ')):
            rv = s.strip_generics(rv)
        m = re.match(r'^(Add|Sub|Mul)WithOverflow\((.*)\)$', rv)
        if m:
            a, b = [s.operand(env, x, fn) for x in s.split_args(m.group(2))]
            r = ARI({'Add': '+', 'Sub': '-', 'Mul': '*'}[m.group(1)], a, b)
            ty = re.match(r'^\((\w+), bool\)$', dest_ty).group(1)
            return [r, NOT(inrange(r, ty))]
        m = re.match(r'^(Add|Sub|Mul|Div|Rem|Eq|Ne|Lt|Le|Gt|Ge|BitAnd|BitOr|BitXor|Shl|Shr|AddUnchecked|SubUnchecked|MulUnchecked|Offset)\((.*)\)$', rv)
        if m:
            op = m.group(1)
            ops = s.split_args(m.group(2))
            a, b = [s.operand(env, x, fn) for x in ops]
            if op in ('Add', 'Sub', 'Mul'):
                # unchecked (wrapping) arithmetic in MIR: model exactly, with wrap-around
                r = ARI({'Add': '+', 'Sub': '-', 'Mul': '*'}[op], a, b)
                ty = s.optype(ops[0], fn) or s.optype(ops[1], fn) or (dest_ty if dest_ty in INT_T else None)
                if ty not in INT_T:
                    raise Unsupported(f'untyped wrapping {op} in {fn.name}: {rv}')
                return s.wrap(r, ty)
            if op == 'Div':
                return tdiv(a, b)
            if op == 'Rem':
                return trem(a, b)
            if op in ('Eq', 'Ne', 'Lt', 'Le', 'Gt', 'Ge'):
                if isbool(a) or isbool(b):
                    if op not in ('Eq', 'Ne'):
                        raise Unsupported('ordering on bool')
                    e = IFF(a, b)
                    return e if op == 'Eq' else NOT(e)
                r = CMP({'Eq': '=', 'Ne': '=', 'Lt': '<', 'Le': '<=', 'Gt': '>', 'Ge': '>='}[op], a, b)
                return NOT(r) if op == 'Ne' else r
            if op == 'BitAnd' and (isbool(a) and isbool(b)):
                return AND(a, b)
            if op == 'BitOr' and (isbool(a) and isbool(b)):
                return OR(a, b)
            if op == 'BitXor' and (isbool(a) and isbool(b)):
                return NOT(IFF(a, b))
            # shifts / masks by constants (two's complement): x >> k = floor(x / 2^k) (arithmetic for signed, logical for unsigned),
            # x << k = wrap(x * 2^k), x & (2^k - 1) = x mod 2^k
            if op == 'Shr' and isc(b) and 0 <= b < 128:
                return (a >> b) if isc(a) else named('Int', f'(div {sm(a)} {1 << b})')
            if op == 'Shl' and isc(b) and 0 <= b < 128:
                ty = s.optype(ops[0], fn) or (dest_ty if dest_ty in INT_T else None)
                if ty not in INT_T:
                    raise Unsupported(f'untyped Shl in {fn.name}: {rv}')
                return s.wrap(ARI('*', a, 1 << b), ty)
            if op == 'BitAnd':
                for x, mask in ((a, b), (b, a)):
                    if isc(mask) and mask >= 0 and (mask & (mask + 1)) == 0:
                        return (x & mask) if isc(x) else named('Int', f'(mod {sm(x)} {mask + 1})')
            raise Unsupported(f'binary op {op} on integers in {fn.name}: {rv}')
        m = re.match(r'^Not\((.*)\)$', rv)
        if m:
            v = s.operand(env, m.group(1), fn)
            if not isbool(v):
                raise Unsupported('bitwise Not on integer')
            return NOT(v)
        m = re.match(r'^Neg\((.*)\)$', rv)
        if m:
            v = s.operand(env, m.group(1), fn)
            ty = s.optype(m.group(1), fn)
            r = ARI('-', 0, v)
            if ty in INT_T:
                C.obl.append((g, NOT(inrange(r, ty)), f'negation overflow in {fn.name}', 'overflow'))
            return r
        m = re.match(r'^discriminant\((.*)\)$', rv)
        if m:
            return s.read(env, s.parse_place(m.group(1)))['$d']
        m = re.match(r'^PtrMetadata\((.*)\)$', rv)
        if m:
            v = s.operand(env, m.group(1), fn)
            return v['$len'] if isinstance(v, dict) and '$len' in v else len(v['$a'] if isinstance(v, dict) else v)
        m = re.match(r'^(.*) as (.+?) \((\w+)(?:\(.*\))?\)$', rv)
        if m:
            v = s.operand(env, m.group(1), fn)
            to = m.group(2)
            kind = m.group(3)
            if kind == 'PointerCoercion':
                return {'$a': v, '$len': len(v)} if isinstance(v, list) else v
            if kind in ('IntToInt',):
                frm = s.optype(m.group(1), fn)
                if isbool(v):
                    v = ITE(v, 1, 0, 'Int')
                    frm = 'u8'
                if frm == 'char':
                    frm = 'u32'
                if to == 'char':
                    to = 'u32'
                lo, hi = rng(to)
                if frm in INT_T:
                    flo, fhi = rng(frm)
                    if lo <= flo and fhi <= hi:
                        return v
                if isc(v):
                    n = INT_T[to][0]
                    w = v % (1 << n)
                    return w - (1 << n) if INT_T[to][1] and w >= (1 << (n - 1)) else w
                C.obl.append((g, NOT(inrange(v, to)), f'lossy cast to {to} in {fn.name}', 'cast'))
                return s.wrap(v, to)
            if kind == 'Transmute':
                return v
            raise Unsupported('cast ' + rv)
        if rv.startswith('&'):
            t = rv[1:].strip()
            if t.startswith('mut '):
                raise Unsupported('&mut borrow in ' + fn.name)
            if t.startswith('raw '):
                raise Unsupported('raw borrow in ' + fn.name)
            return s.read(env, s.parse_place(t))
        mrep = re.match(r'^\[(.+); (\d+)\]$', rv)
        if mrep:
            return [s.operand(env, mrep.group(1), fn)] * int(mrep.group(2))
        if rv.startswith('['):
            return [s.operand(env, x, fn) for x in s.split_args(rv[1:-1])]
        if rv.startswith('('):
            return [s.operand(env, x, fn) for x in s.split_args(rv[1:-1])]
        if rv.startswith(('copy ', 'move ', 'const ', 'no_retag ')):
            return s.operand(env, rv, fn)
        m = re.match(r'^([\w:<>, ()\[\];&\']+?) \{ (.*) \}$', rv)
        if m:
            d = {}
            for fld in s.split_args(m.group(2)):
                k, v = fld.split(': ', 1)
                d[k] = s.operand(env, v, fn)
            return d
        m = re.match(r'^([\w:<>, ()\[\];&\']+?)\((.*)\)$', rv)
        if m:
            path = re.sub(r'::<.*>(?=::)', '', m.group(1))
            args = [s.operand(env, x, fn) for x in s.split_args(m.group(2))]
            segs = path.split('::')
            if len(segs) >= 2 and segs[-2] in s.enums and segs[-1] in s.enums[segs[-2]]:
                return {'$d': s.enums[segs[-2]][segs[-1]], '$v': {segs[-1]: args}}
            return args
        path = re.sub(r'::<.*>(?=::)', '', rv)
        segs = path.split('::')
        if len(segs) >= 2 and segs[-2] in s.enums and segs[-1] in s.enums[segs[-2]]:
            return {'$d': s.enums[segs[-2]][segs[-1]], '$v': {}}
        if re.match(r'^\w+$', rv):
            en = re.sub(r'<.*>$', '', dest_ty).split('::')[-1]
            if en in s.enums and rv in s.enums[en]:
                return {'$d': s.enums[en][rv], '$v': {}}
            cands = [en for en, vs in s.enums.items() if rv in vs]
            if len(cands) == 1:
                return {'$d': s.enums[cands[0]][rv], '$v': {}}
        raise Unsupported('rvalue ' + rv)

    @staticmethod
    def wrap(v, ty):
        n, sg = INT_T[ty]
        if isc(v):
            w = v % (1 << n)
            return w - (1 << n) if sg and w >= (1 << (n - 1)) else w
        if sg:
            return named('Int', f'(- (mod (+ {sm(v)} {1 << (n - 1)}) {1 << n}) {1 << (n - 1)})')
        return named('Int', f'(mod {sm(v)} {1 << n})')

    # ---- trusted models of core items (DESIGN.md 2.4)
    def builtin(s, name, args, g, fn):
        nm = name
        mt = re.search(r'impl ([iu]\d+|[iu]size)>', nm)
        ty = mt.group(1) if mt else None
        if nm.endswith(('>::checked_sub', '>::checked_add')) and ty:
            r = ARI('-' if 'sub' in nm else '+', args[0], args[1])
            ok = inrange(r, ty)
            return {'$d': ITE(ok, 1, 0, 'Int'), '$v': {'Some': [r]}}
        if nm.endswith('>::rem_euclid') and ty:
            a, b = args
            if isc(a) and isc(b):
                return a % abs(b)
            if not (isinstance(b, int) and b > 0):
                raise Unsupported('rem_euclid with non-constant divisor')
            return named('Int', f'(mod {sm(a)} {sm(b)})')
        if nm.endswith('>::div_euclid') and ty:
            a, b = args
            if isc(a) and isc(b) and b > 0:
                return a // b
            if not (isinstance(b, int) and b > 0):
                raise Unsupported('div_euclid with non-constant divisor')
            return named('Int', f'(div {sm(a)} {sm(b)})')
        if nm.endswith('>::unsigned_abs') and ty:
            a = args[0]
            return abs(a) if isc(a) else named('Int', f'(abs {sm(a)})')
        if nm.endswith(('>::wrapping_add', '>::wrapping_sub', '>::wrapping_mul')) and ty:
            return s.wrap(ARI({'add': '+', 'sub': '-', 'mul': '*'}[nm[-3:]], args[0], args[1]), ty)
        if nm.endswith('>::checked_mul') and ty:
            r = ARI('*', args[0], args[1])
            return {'$d': ITE(inrange(r, ty), 1, 0, 'Int'), '$v': {'Some': [r]}}
        if nm.endswith('>::abs_diff') and ty:
            d = ARI('-', args[0], args[1])
            return abs(d) if isc(d) else named('Int', f'(abs {sm(d)})')
        if nm.endswith('>::abs') and ty:
            a = args[0]
            r = abs(a) if isc(a) else named('Int', f'(abs {sm(a)})')
            C.obl.append((g, CMP('=', a, rng(ty)[0]), f'abs overflow in {fn.name}', 'overflow'))
            return r
        if nm.endswith('>::saturating_abs') and ty:
            a = args[0]
            r = abs(a) if isc(a) else named('Int', f'(abs {sm(a)})')
            return ITE(CMP('=', a, rng(ty)[0]), rng(ty)[1], r, 'Int')
        if nm.endswith(('>::saturating_sub', '>::saturating_add')) and ty:
            r = ARI('-' if 'sub' in nm else '+', args[0], args[1])
            lo, hi = rng(ty)
            return ITE(CMP('<', r, lo), lo, ITE(CMP('>', r, hi), hi, r, 'Int'), 'Int')
        if re.search(r'<impl \[[^\]]+\]>::len$', nm):
            return args[0]['$len'] if isinstance(args[0], dict) else len(args[0])
        if nm.endswith('<impl u64>::from_ne_bytes'):
            arr = args[0]['$a'] if isinstance(args[0], dict) else args[0]
            r = 0
            for k, b in enumerate(arr):
                r = ARI('+', r, ARI('*', b, 1 << (8 * k)))
            return r
        return None

    # ---- control flow graph helpers
    def cfg(s, f):
        if hasattr(f, '_cfg'):
            return f._cfg
        succ = {}
        for bb, sts in f.blocks.items():
            t = sts[-1] if sts else ''
            succ[bb] = list(dict.fromkeys(x for x in re.findall(r'bb\d+', t.split(' -> ', 1)[1] if ' -> ' in t else '') if 'unwind: ' + x not in t))
        # DFS for back edges and reverse post-order
        color = {}
        back = set()
        post = []
        stack = [('bb0', iter(succ.get('bb0', [])))]
        color['bb0'] = 1
        while stack:
            u, it = stack[-1]
            adv = False
            for v in it:
                if v not in f.blocks:
                    continue
                if color.get(v, 0) == 0:
                    color[v] = 1
                    stack.append((v, iter(succ.get(v, []))))
                    adv = True
                    break
                elif color[v] == 1:
                    back.add((u, v))
            if not adv:
                color[u] = 2
                post.append(u)
                stack.pop()
        rpo = {b: i for i, b in enumerate(reversed(post))}
        # natural loops
        pred = {}
        for u, vs in succ.items():
            for v in vs:
                pred.setdefault(v, []).append(u)
        loops = {}
        for (u, h) in back:
            body = loops.setdefault(h, {h})
            st = [u]
            while st:
                x = st.pop()
                if x in body:
                    continue
                body.add(x)
                st.extend(pred.get(x, []))
        inloop = {}
        for h, body in loops.items():
            for b in body:
                if b in inloop and inloop[b] != h:
                    raise Unsupported(f'nested/overlapping loops in {f.name}')
                inloop[b] = h
        f._cfg = (succ, back, rpo, inloop)
        return f._cfg

    def call(s, suffix, args, g=True, sigpart=None):
        return s.call_item(s.mir.find(suffix, sigpart), args, g)

    def call_item(s, f, args, g=True):
        """inline f(args) under guard g; obligations are recorded relative to g. Memoised on argument terms."""
        s.stats['calls'] += 1
        key = (f.name, getattr(f, 'sig', ''), tuple(vkey(a) for a in args))
        if key in s.memo:
            s.stats['memo_hits'] += 1
            r, obl, evs = s.memo[key]
        else:
            n0 = len(C.obl)
            e0 = len(s.events)
            r = s.exec_body(f, args)
            obl = C.obl[n0:]
            del C.obl[n0:]
            evs = s.events[e0:]
            del s.events[e0:]
            s.memo[key] = (r, obl, evs)
            if f.kind == 'fn' and f.name not in s.encoded:
                s.encoded.append(f.name)
        for (og, oc, od, ok) in obl:
            C.obl.append((AND(g, og), oc, od, ok))
        for ev in evs:
            s.events.append(Event(AND(g, ev.guard), ev.kind, ev.template, ev.args, ev.ok))
        return r

    def exec_body(s, f, args):
        succ, back, rpo, inloop = s.cfg(f)
        bound = s.unwind.get(f.name.split('::')[-1], s.unwind.get(f.name, s.default_unwind))
        env0 = {}
        for p, a in zip(f.params, args):
            env0[p] = a
        if len(args) != len(f.params):
            raise Unsupported(f'arity mismatch calling {f.name}')

        def node_of(u, ku, v):
            """target unrolled node of CFG edge u->v leaving copy ku"""
            if (u, v) in back:
                return (v, ku + 1)
            if v in inloop and inloop.get(u) == inloop[v]:
                return (v, ku)
            return (v, 0)
        # structural in-degrees of the unrolled DAG (reachable part)
        indeg = {}
        seen = {('bb0', 0)}
        work = [('bb0', 0)]
        overflow_nodes = set()
        while work:
            (u, k) = work.pop()
            for v in succ[u]:
                if v not in f.blocks:
                    continue
                n = node_of(u, k, v)
                if n[1] > bound:
                    overflow_nodes.add(n)
                    continue
                indeg[n] = indeg.get(n, 0) + 1
                if n not in seen:
                    seen.add(n)
                    work.append(n)
        states = {('bb0', 0): (True, env0)}
        ready = [('bb0', 0)]
        rets = []

        def deliver(n, ng, env):
            if n[1] > bound:
                if ng is not False:
                    C.obl.append((True, ng, f'unwinding bound {bound} exceeded in {f.name}', 'unwind'))
                return
            if ng is not False:
                if n in states:
                    og, oe = states[n]
                    me = {}
                    for v in list(dict.fromkeys(list(env) + list(oe))):
                        if v in env and v in oe:
                            me[v] = env[v] if env[v] is oe[v] else merge(ng, env[v], oe[v])
                        # a local set on only one incoming path is dead at the join (MIR is well-formed)
                    states[n] = (OR(og, ng), me)
                else:
                    states[n] = (ng, dict(env))
            indeg[n] -= 1
            if indeg[n] == 0:
                ready.append(n)

        while ready:
            ready.sort(key=lambda n: (rpo.get(n[0], 0), n[1]), reverse=True)
            node = ready.pop()
            bb, k = node
            if node not in states:
                # unreachable under every guard: still propagate structural edges
                for v in succ[bb]:
                    if v in f.blocks:
                        deliver(node_of(bb, k, v), False, {})
                continue
            guard, env = states.pop(node)
            env = dict(env)
            delivered = set()

            def goto(tgt, cond):
                n = node_of(bb, k, tgt)
                ng = AND(guard, cond)
                if (n in delivered):
                    # two arms of one terminator reaching the same block: merge conditions
                    raise Unsupported(f'duplicate edge {bb}->{tgt} in {f.name}')
                delivered.add(n)
                deliver(n, ng, env)
            sts = f.blocks[bb]
            for st in sts:
                st = st.rstrip(';') if not st.startswith(('assert', 'switchInt')) and '->' not in st else st
                if st == 'return':
                    rets.append((guard, env.get('_0')))
                    break
                if st == 'unreachable':
                    C.obl.append((guard, True, f'`unreachable` terminator reached in {f.name} {bb}', 'unreachable'))
                    break
                m = re.match(r'^goto -> (bb\d+);?$', st)
                if m:
                    goto(m.group(1), True)
                    break
                m = re.match(r'^switchInt\((.*)\) -> \[(.*)\];?$', st)
                if m:
                    v = s.operand(env, m.group(1), f)
                    taken = []
                    tgts = {}
                    for arm in m.group(2).split(', '):
                        kx, tg = arm.split(': ')
                        if kx == 'otherwise':
                            c = AND(*[NOT(c) for c in taken])
                        else:
                            kv = int(kx)
                            if isbool(v):
                                c = (v if kv == 1 else NOT(v))
                            else:
                                ty = s.optype(m.group(1), f)
                                if ty in INT_T and INT_T[ty][1] and kv >= (1 << (INT_T[ty][0] - 1)):
                                    kv -= 1 << INT_T[ty][0]   # signed discriminants print as unsigned (Ordering::Less = 255_i8)
                                c = CMP('=', v, kv)
                            taken.append(c)
                        tgts[tg] = OR(tgts[tg], c) if tg in tgts else c
                    for tg, c in tgts.items():
                        goto(tg, c)
                    break
                m = re.match(r'^assert\((!?)(.*?), "(.*?)"(?:, .*)?\) -> \[success: (bb\d+), unwind.*\];?$', st)
                if m:
                    c = s.operand(env, m.group(2), f)
                    if m.group(1) == '!':
                        c = NOT(c)
                    C.obl.append((guard, NOT(c), f'{m.group(3)} in {f.name} {bb}', 'panic'))
                    goto(m.group(4), c)
                    break
                m = re.match(r'^(.+?) = (.+\)) -> \[return: (bb\d+), unwind.*\];?$', st)
                if m and not re.match(r'^(Add|Sub|Mul)WithOverflow', m.group(2)):
                    callee, argtxt = s.split_call(m.group(2))
                    r = s.do_call(env, f, guard, callee, argtxt)
                    s.write(env, s.parse_place(m.group(1)), r)
                    goto(m.group(3), True)
                    break
                m = re.match(r'^(.+?) = (.+?)\((.*)\) -> unwind.*$', st)
                if m:
                    C.obl.append((guard, True, f'call to diverging {m.group(2)} in {f.name} {bb}', 'panic'))
                    break
                m = re.match(r'^drop\(.*\) -> \[return: (bb\d+), unwind.*\];?$', st)
                if m:
                    goto(m.group(1), True)
                    break
                m = re.match(r'^(.+?) = (.*)$', st)
                if m:
                    dst = s.parse_place(m.group(1))
                    dty = f.types.get(dst[0][1], '') if len(dst) == 1 else ''
                    val = s.rvalue(env, m.group(2), f, guard, dty)
                    s.write(env, dst, val)
                    continue
                raise Unsupported(f'statement in {f.name} {bb}: {st}')
            # structural edges not delivered (e.g. after return) need no accounting: succ only lists real targets
            for v in succ[bb]:
                if v in f.blocks:
                    n = node_of(bb, k, v)
                    if n not in delivered and n[1] <= bound:
                        deliver(n, False, {})
        r = None
        for gd, v in rets:
            r = merge(gd, v, r) if r is not None else v
        return r

    def do_call(s, env, f, guard, name, argtxt):
        args = [s.operand(env, x, f) for x in s.split_args(argtxt)]
        nmc = s.strip_generics(name)
        nmc = s.mir.canon(nmc)
        for key, fnc in s.summaries.items():
            if nmc == key or nmc.endswith('::' + key):
                return fnc(args, guard)
        r = s.builtin(name, args, guard, f)
        if r is not None:
            return r
        r = s.fmt_model(name, nmc, args, guard, f)
        if r is not None:
            return r
        if nmc.startswith(('core::', 'std::', 'alloc::', '<')) and not any(n == nmc for n in s.items):
            raise Unsupported(f'call to unmodelled library item {name} in {f.name}')
        try:
            cal = s.mir.find(nmc)
        except Unsupported:
            cal = s.mir.find('::'.join(nmc.split('::')[-2:]))
        return s.call_item(cal, args, guard)

    # ---- output-event abstraction of core::fmt (C18 / C20)
    def fmt_model(s, name, nmc, args, guard, f):
        if 'Argument::<' in name and 'new_display' in name or nmc.endswith('Argument::new_display') or re.search(r'Argument(<[^>]*>)?::new_display', name):
            mt = re.search(r'new_display::<(.+)>$', name)
            return {'$arg': args[0], '$ty': mt.group(1) if mt else None}
        if re.search(r'Arguments(<[^>]*>)?::new(_const)?(::<.*>)?$', name) or nmc.endswith(('Arguments::new', 'Arguments::new_const', 'Arguments::from_str', 'Arguments::from_str_nonconst')):
            tmpl = args[0]
            rest = args[1] if len(args) > 1 else []
            if isinstance(rest, dict) and '$a' in rest:
                rest = rest['$a']
            return {'$fmtargs': (tmpl, rest)}
        if nmc.endswith('Formatter::write_fmt') or re.search(r'Formatter(<[^>]*>)?::write_fmt$', name):
            fa = args[1]
            if not (isinstance(fa, dict) and '$fmtargs' in fa):
                raise Unsupported('write_fmt with untracked Arguments')
            okv = B('fmt_ok')
            s.events.append(Event(guard, 'write_fmt', fa['$fmtargs'][0], fa['$fmtargs'][1], okv))
            return {'$d': ITE(okv, 0, 1, 'Int'), '$v': {'Ok': [{}], 'Err': [{}]}}
        if nmc.endswith('Formatter::write_str') or re.search(r'Formatter(<[^>]*>)?::write_str$', name):
            okv = B('fmt_ok')
            s.events.append(Event(guard, 'write_str', args[1], [], okv))
            return {'$d': ITE(okv, 0, 1, 'Int'), '$v': {'Ok': [{}], 'Err': [{}]}}
        if re.search(r'as (core|std)::ops::Try>::branch$', name):
            v = args[0]
            # Result<T,E>::branch: Ok(x) -> Continue(x) [0], Err(e) -> Break(Err(e)) [1]
            return {'$d': v['$d'], '$v': {'Continue': v['$v'].get('Ok', [{}]), 'Break': [{'$d': 1, '$v': {'Err': v['$v'].get('Err', [{}])}}]}}
        if re.search(r'as (core|std)::ops::FromResidual<.*>>::from_residual$', name):
            v = args[0]
            return {'$d': 1, '$v': {'Err': v['$v'].get('Err', [{}]) if isinstance(v, dict) and '$v' in v else [{}]}}
        return None
