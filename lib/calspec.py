"""Solver-side calendar specification (written from the Gregorian rules, independent of the crate's code)."""
from mir2smt import *

DIM = [31, 28, 31, 30, 31, 30, 31, 31, 30, 31, 30, 31]


def sleap(y):
    if isc(y):
        return y % 400 == 0 or (y % 4 == 0 and y % 100 != 0)
    return named('Bool', f'(or (= (mod {y} 400) 0) (and (= (mod {y} 4) 0) (not (= (mod {y} 100) 0))))')


def sdim(y, m):
    """days in month m (1..12) of year y"""
    e = 31
    lp = sleap(y)
    for i in range(11, -1, -1):
        e = ITE(CMP('=', m, i + 1), (ITE(lp, 29, 28, 'Int') if i == 1 else DIM[i]), e, 'Int')
    return e


def valid_date(y, m, d):
    return AND(CMP('<=', 1, m), CMP('<=', m, 12), CMP('<=', 1, d), CMP('<=', d, sdim(y, m)))


def valid_fields(y, m, d, h, mi, s, smax=59):
    return AND(valid_date(y, m, d), CMP('<=', 0, h), CMP('<=', h, 23), CMP('<=', 0, mi), CMP('<=', mi, 59), CMP('<=', 0, s), CMP('<=', s, smax))


def lex_lt(a, b):
    r = False
    for x, z in reversed(list(zip(a, b))):
        r = OR(CMP('<', x, z), AND(CMP('=', x, z), r))
    return r


def veq(a, b):
    if isinstance(a, dict) and isinstance(b, dict):
        if '$d' in a:
            return AND(EQ(a['$d'], b['$d']), *[veq(a['$v'][k], b['$v'][k]) for k in a['$v'] if k in b['$v']])
        return AND(*[veq(a[k], b[k]) for k in a if k in b])
    if isinstance(a, list) and isinstance(b, list):
        return AND(*[veq(x, y) for x, y in zip(a, b)])
    return EQ(a, b)


MIN_T, MAX_T = -67768100567971200, 67767976233532799   # = calref.MIN_T / MAX_T, re-derived in C01/C02 from the real unix_time
