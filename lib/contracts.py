"""Assume-guarantee contracts shared by C04 and C11: the calendar kernel is summarised by uninterpreted
functions Jf(y) = days(y,1,1) and Lf(y) = is_leap(y); every property of them that is assumed is discharged
here as a solver query on the real MIR of days_since_unix_epoch / is_leap_year (all i32 years)."""
from mir2smt import *
from calspec import *
import mir2smt as M

JBOUND = 366 * 2**31
CUM_N = [0, 31, 59, 90, 120, 151, 181, 212, 243, 273, 304, 334]


def cumspec(m, leap):
    """days before month m (1..12) in a normal/leap year (spec table, typed independently of the crate)"""
    e = CUM_N[11]
    for i in range(10, -1, -1):
        e = ITE(CMP('=', m, i + 1), CUM_N[i], e, 'Int')
    return ADD(e, ITE(AND(leap, CMP('>=', m, 3)), 1, 0, 'Int'))


class CalAbs:
    """summaries for Exec: days_since_unix_epoch(y,m,d) := Jf(y) + cum(m, Lf(y)) + d - 1, is_leap_year(y) := Lf(y)"""

    def __init__(s):
        s.J = UF('Jf', ['Int'], 'Int')
        s.L = UF('Lf', ['Int'], 'Bool')
        s.years = []

    def year(s, y):
        """range axiom instance for every year term the abstraction is applied to: |Jf(y)| <= 366 * 2^31"""
        if any(vkey(y) == vkey(z) for z in s.years):
            return
        s.years.append(y)
        assume(CMP('<=', -JBOUND, s.J(y)), CMP('<=', s.J(y), JBOUND))

    def link(s, y):
        """axiom instance: Jf(y+1) = Jf(y) + 365 + [Lf(y)], no two consecutive leap years"""
        y1 = ARI('+', y, 1)
        s.year(y)
        s.year(y1)
        assume(CMP('=', s.J(y1), ADD(s.J(y), 365, ITE(s.L(y), 1, 0, 'Int'))), NOT(AND(s.L(y), s.L(y1))))

    def days(s, args, g):
        y, m, d = args
        s.year(y)
        return ADD(s.J(y), cumspec(m, s.L(y)), d, -1)

    def leap(s, args, g):
        return s.L(args[0])

    def summaries(s):
        return {'days_since_unix_epoch': s.days, 'is_leap_year': s.leap}


def discharge(A, ex):
    """queries on the REAL code that justify CalAbs (all i32 years): must all be UNSAT"""
    y = I('cy', 'i32')
    m = I('cm')
    d = I('cd')
    g = AND(CMP('<=', 1, m), CMP('<=', m, 12), CMP('<=', 1, d), CMP('<=', d, 32))
    D = lambda a, gg=True: ex.call('days_since_unix_epoch', a, g=gg)
    lp = ex.call('is_leap_year', [y])
    A.claim('contract:days(y,m,d)=days(y,1,1)+cum(m,leap)+d-1', AND(g, NOT(CMP('=', D([y, m, d], g), ADD(D([y, 1, 1]), cumspec(m, lp), d, -1)))), get=[y, m, d],
            meaning='decomposition of the real days_since_unix_epoch used by the abstraction')
    yn = CMP('<', y, rng('i32')[1])
    A.claim('contract:year_step', AND(yn, NOT(CMP('=', D([ARI('+', y, 1), 1, 1], yn), ADD(D([y, 1, 1]), 365, ITE(lp, 1, 0, 'Int'))))), get=[y])
    A.claim('contract:|days(y,1,1)|<=366*2^31', NOT(AND(CMP('<=', -JBOUND, D([y, 1, 1])), CMP('<=', D([y, 1, 1]), JBOUND))), get=[y])
    A.claim('contract:leap_rule_and_no_consecutive_leap_years', OR(NOT(IFF(lp, sleap(y))), AND(yn, lp, ex.call('is_leap_year', [ARI('+', y, 1)], g=yn))), get=[y])
