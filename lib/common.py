#!/usr/bin/env python3
"""Shared plumbing of the checks: scratch copies of /repo, MIR dumps, solver runs, evidence, exit codes."""
import os, sys, json, time, shutil, subprocess, tempfile, atexit, hashlib, random, re, threading
from concurrent.futures import ThreadPoolExecutor

VERIF = os.path.dirname(os.path.dirname(os.path.abspath(__file__)))
REPO = os.environ.get('VERIF_REPO', '/repo')
NCPU = os.cpu_count() or 4

ENV = dict(os.environ)
ENV.update({'CARGO_NET_OFFLINE': 'true', 'CARGO_TERM_COLOR': 'never'})

_scratch = None


def scratch():
    """per-run scratch directory outside /repo and /verif, removed at exit"""
    global _scratch
    if _scratch is None:
        base = os.environ.get('VERIF_SCRATCH_BASE') or ('/var/tmp' if os.path.isdir('/var/tmp') else tempfile.gettempdir())
        _scratch = tempfile.mkdtemp(prefix='tzverif.', dir=base)
        if not os.environ.get('VERIF_KEEP'):
            atexit.register(lambda: shutil.rmtree(_scratch, ignore_errors=True))
    return _scratch


def copy_repo(dst, extra_files=None):
    os.makedirs(dst, exist_ok=True)
    for f in ('Cargo.toml', 'Cargo.lock'):
        if os.path.exists(os.path.join(REPO, f)):   # Cargo.lock is git-ignored in tz-rs (no dependencies): optional
            shutil.copy(os.path.join(REPO, f), os.path.join(dst, f))
    shutil.copytree(os.path.join(REPO, 'src'), os.path.join(dst, 'src'), dirs_exist_ok=True)
    return dst


def repo_fingerprint():
    h = hashlib.sha256()
    for root, _, files in sorted(os.walk(os.path.join(REPO, 'src'))):
        for f in sorted(files):
            p = os.path.join(root, f)
            h.update(p.encode())
            h.update(open(p, 'rb').read())
    return h.hexdigest()[:16]


FEATURES = {'default': [], 'alloc': ['--no-default-features', '--features', 'alloc'], 'nostd': ['--no-default-features']}


def mir_dump(features='default', append=None, tag=None):
    """MIR text of /repo's current working tree (scratch copy), overflow checks on. `append` maps a
    relative source path to text appended in the scratch copy only (reference functions for C18/C20)."""
    d = os.path.join(scratch(), 'mir_' + (tag or features))
    if os.path.exists(d):
        shutil.rmtree(d)
    copy_repo(d)
    for rel, text in (append or {}).items():
        with open(os.path.join(d, rel), 'a') as fh:
            fh.write('\n' + text + '\n')
    cmd = ['cargo', '+nightly', 'rustc', '--offline', '--lib'] + FEATURES[features] + ['--', '-Zunpretty=mir', '-Ztrim-diagnostic-paths=no', '-C', 'debug-assertions=off', '-C', 'overflow-checks=on']
    env = dict(ENV)
    env['CARGO_TARGET_DIR'] = os.path.join(d, 'target')
    t0 = time.time()
    p = subprocess.run(cmd, cwd=d, env=env, capture_output=True, text=True)
    if p.returncode != 0 or len(p.stdout) < 1000:
        raise Inconclusive('MIR dump failed (the tree does not compile with the pinned nightly?):\n' + p.stderr[-2000:])
    shutil.rmtree(os.path.join(d, 'target'), ignore_errors=True)
    return p.stdout, d, time.time() - t0


class Inconclusive(Exception):
    pass


# ---------------------------------------------------------------- solvers
SOLVERS = {
    'cvc5': lambda f, t: ['cvc5', '--lang', 'smt2', '--produce-models', f'--tlimit={int(t * 1000)}', f],
    'z3': lambda f, t: ['z3-new', f'-T:{int(t)}', f],
}


def run_solver(solver, script, timeout, keep_as=None):
    d = os.path.join(scratch(), 'smt')
    os.makedirs(d, exist_ok=True)
    fn = os.path.join(d, (keep_as or hashlib.sha1(script.encode()).hexdigest()[:16]) + f'.{solver}.smt2')
    with open(fn, 'w') as fh:
        fh.write(script)
    t0 = time.time()
    try:
        p = subprocess.run(SOLVERS[solver](fn, timeout), capture_output=True, text=True, timeout=timeout + 15)
        out = p.stdout + p.stderr
    except subprocess.TimeoutExpired:
        return 'timeout', '', time.time() - t0
    dt = time.time() - t0
    lines = [l.strip() for l in out.split('\n') if l.strip()]
    vi = next((i for i, l in enumerate(lines) if l in ('sat', 'unsat', 'unknown')), None)
    if vi is None:
        if any('timeout' in l.lower() or 'interrupted' in l.lower() for l in lines) or dt >= timeout - 1:
            return 'timeout', out, dt
        return 'error', out, dt
    if any(l.startswith('(error') for l in lines[:vi]):
        return 'error', out, dt
    v = lines[vi]
    rest = lines[vi + 1:]
    if v == 'unsat':
        # the trailing get-value legitimately fails after unsat; anything else is an error
        if any(l.startswith('(error') and not re.search(r'[Cc]annot get value|model is not available|get-value', l) for l in rest):
            return 'error', out, dt
        return v, '', dt
    if v == 'sat':
        if any(l.startswith('(error') for l in rest):
            return 'error', out, dt
        return v, '\n'.join(rest), dt
    return ('timeout' if dt >= timeout * 0.9 else 'unknown'), out, dt


def parse_model(txt):
    """((x 5) (y (- 3)) (b true)) -> dict"""
    m = {}
    for nm, val in re.findall(r'\(([A-Za-z_][A-Za-z0-9_]*) ((?:\(- \d+\))|(?:-?\d+)|true|false)\)', txt):
        if val in ('true', 'false'):
            m[nm] = (val == 'true')
        elif val.startswith('(-'):
            m[nm] = -int(val[3:-1])
        else:
            m[nm] = int(val)
    return m


class Query:
    def __init__(s, name, script, expect='unsat', kind='claim', required=True, cap=None, ndefs=0, meaning='', get=None, cases=None):
        s.name, s.script, s.expect, s.kind, s.required, s.cap, s.ndefs, s.meaning = name, script, expect, kind, required, cap, ndefs, meaning
        s.cases = cases        # optional case split: list of (label, smt assertions text); verdict unsat iff every case is unsat
        s.verdict = None
        s.secs = 0.0
        s.model = {}
        s.by = {}              # solver -> verdict summary
        s.z3 = None
        s.z3_secs = 0.0
        s.raw = ''
        s.disagree = None

    def as_json(s):
        d = {'name': s.name, 'kind': s.kind, 'expect': s.expect, 'verdict': s.verdict, 'seconds': round(s.secs, 2), 'definitions': s.ndefs, 'required': s.required,
             'solvers': s.by}
        if s.cases:
            d['case_split'] = len(s.cases)
        if s.meaning:
            d['meaning'] = s.meaning
        if s.script:
            # the negated claim as given to the solvers (last assertion before check-sat), truncated
            tail = s.script.rsplit('(check-sat)', 1)[0].rstrip().split('\n')[-1]
            d['negated_claim_smt'] = tail[:300]
        if getattr(s, 'model', None):
            d['model'] = {k: v for k, v in list(s.model.items())[:12]}
        return d


def portfolio(script, cap, grace, tag):
    """cvc5 and z3-new race on one script; the first definite verdict wins, the other gets `grace` more seconds
    (agreement is recorded when both finish). Returns (verdict, model_text, seconds, {solver: verdict})."""
    d = os.path.join(scratch(), 'smt')
    os.makedirs(d, exist_ok=True)
    base = os.path.join(d, re.sub(r'[^A-Za-z0-9_.=-]', '_', tag)[:100] + '.' + hashlib.sha1(script.encode()).hexdigest()[:8])
    procs = {}
    t0 = time.time()
    for sv in ('cvc5', 'z3'):
        fn = f'{base}.{sv}.smt2'
        with open(fn, 'w') as fh:
            fh.write(script)
        procs[sv] = subprocess.Popen(SOLVERS[sv](fn, cap), stdout=subprocess.PIPE, stderr=subprocess.STDOUT, text=True)
    res = {}
    first = None
    deadline = t0 + cap + 10
    while procs:
        for sv in list(procs):
            p = procs[sv]
            if p.poll() is not None:
                out = p.stdout.read()
                res[sv] = classify(out, time.time() - t0, cap) + (time.time() - t0,)
                del procs[sv]
                if first is None and res[sv][0] in ('sat', 'unsat'):
                    first = sv
                    deadline = min(deadline, time.time() + grace)
        if procs and time.time() > deadline:
            for sv, p in procs.items():
                p.kill()
                p.wait()
                res[sv] = ('timeout' if first is None else 'stopped', '', time.time() - t0)
            procs = {}
        if procs:
            time.sleep(0.02)
    by = {sv: r[0] for sv, r in res.items()}
    defin = {sv: r for sv, r in res.items() if r[0] in ('sat', 'unsat')}
    if len({r[0] for r in defin.values()}) > 1:
        return 'disagree', '', time.time() - t0, by
    if first:
        return res[first][0], res[first][1], res[first][2], by
    v = 'error' if all(r[0] == 'error' for r in res.values()) else 'timeout' if any(r[0] == 'timeout' for r in res.values()) else 'unknown'
    return v, '\n'.join(r[1] for r in res.values())[:2000], time.time() - t0, by


def classify(out, dt, timeout):
    lines = [l.strip() for l in out.split('\n') if l.strip()]
    vi = next((i for i, l in enumerate(lines) if l in ('sat', 'unsat', 'unknown')), None)
    if vi is None:
        if any('timeout' in l.lower() or 'interrupted' in l.lower() for l in lines) or dt >= timeout - 1:
            return 'timeout', out
        return 'error', out
    if any(l.startswith('(error') for l in lines[:vi]):
        return 'error', out
    v = lines[vi]
    rest = lines[vi + 1:]
    if v == 'unsat':
        if any(l.startswith('(error') and not re.search(r'[Cc]annot get value|model is not available|get-value', l) for l in rest):
            return 'error', out
        return v, ''
    if v == 'sat':
        if any(l.startswith('(error') for l in rest):
            return 'error', out
        return v, '\n'.join(rest)
    return ('timeout' if dt >= timeout * 0.9 else 'unknown'), out


def run_queries(queries, cap, grace=2, workers=None, log=None):
    """decide every query by a cvc5/z3-new portfolio, in parallel; case-split queries fan out into one solver run per case"""
    workers = workers or max(2, (NCPU - 1) // 2)
    lock = threading.Lock()
    jobs = []
    for q in queries:
        if q.cases:
            head, tail = q.script.split('(check-sat)', 1)
            for label, pins in q.cases:
                jobs.append((q, label, head + pins + '\n(check-sat)' + tail))
        else:
            jobs.append((q, None, q.script))
        q._res = []

    def one(job):
        q, label, script = job
        r = portfolio(script, q.cap or cap, grace, q.name + ('.' + label if label else ''))
        with lock:
            q._res.append((label,) + r)
            if log and (not label or r[0] != 'unsat'):
                log(f'  [{"/".join(k + ":" + v for k, v in sorted(r[3].items()))}] {r[0]:8} {r[2]:7.1f}s  {q.name}{" [" + label + "]" if label else ""}')
    with ThreadPoolExecutor(max_workers=workers) as ex:
        list(ex.map(one, jobs))
    for q in queries:
        rs = q._res
        q.secs = sum(r[3] for r in rs)
        vs = [r[1] for r in rs]
        q.by = {}
        for r in rs:
            for sv, v in r[4].items():
                q.by.setdefault(sv, {})
                q.by[sv][v] = q.by[sv].get(v, 0) + 1
        if 'disagree' in vs:
            q.verdict = 'disagree'
        elif 'sat' in vs:
            q.verdict = 'sat'
            r = next(r for r in rs if r[1] == 'sat')
            q.model = parse_model(r[2])
            q.sat_case = r[0]
        elif all(v == 'unsat' for v in vs):
            q.verdict = 'unsat'
        else:
            q.verdict = next(v for v in vs if v not in ('unsat',))
            q.raw = next((r[2] for r in rs if r[1] not in ('unsat',)), '')
        if log and q.cases:
            log(f'  [cases={len(rs)}] {q.verdict:8} {q.secs:7.1f}s  {q.name}')
    return queries


# ---------------------------------------------------------------- known findings
def load_known():
    p = os.path.join(VERIF, 'known_findings.json')
    if not os.path.exists(p):
        return {'findings': [], 'fixed': []}
    return json.load(open(p))


# ---------------------------------------------------------------- the check object
class Check:
    def __init__(s, pid, tier, seed):
        s.pid, s.tier, s.seed = pid, tier, seed
        s.t0 = time.time()
        s.rng = random.Random(seed)
        s.queries = []       # Query objects and kani result dicts
        s.kani = []
        s.functions = []
        s.bounds = []
        s.stubs = []
        s.assumptions = []
        s.trusted = []
        s.samples = []
        s.violations = []    # (text, replay path)
        s.known_hits = []    # text
        s.inconclusive = []  # required items without verdict
        s.not_covered = []   # optional items without verdict
        s.validated = 0      # translator validation vectors / replays that agreed with native
        s.explanation = ''
        s.extra = {}
        s.solver_seconds = 0.0

    def log(s, *a):
        print(*a, flush=True)

    # -- bookkeeping of SMT queries
    def absorb(s, queries):
        for q in queries:
            s.queries.append(q)
            s.solver_seconds += q.secs
            if q.verdict == 'disagree':
                s.inconclusive.append(f'solver disagreement on {q.name}: {q.by}')
            elif q.verdict not in ('sat', 'unsat'):
                (s.inconclusive if q.required else s.not_covered).append(f'{q.name}: {q.verdict} after {q.secs:.0f}s {str(q.raw)[:300] if q.verdict == "error" else ""}')

    def violation(s, text, case):
        os.makedirs(os.path.join(VERIF, 'replays'), exist_ok=True)
        h = hashlib.sha1(json.dumps(case, sort_keys=True).encode()).hexdigest()[:10]
        path = os.path.join(VERIF, 'replays', f'{s.pid}-{h}.json')
        with open(path, 'w') as fh:
            json.dump({'property': s.pid, 'what': text, 'case': case}, fh, indent=1)
        s.violations.append((text, path))

    def finish(s):
        wall = time.time() - s.t0
        nq = len(s.queries) + len(s.kani)
        decided = [q for q in s.queries if q.verdict in ('sat', 'unsat') and q.verdict == q.expect] + [k for k in s.kani if k.get('verdict') == 'SUCCESSFUL']
        nontrivial = len({q.name for q in s.queries if q.verdict == q.expect and q.ndefs > 0}) + len({k['harness'] for k in s.kani if k.get('verdict') == 'SUCCESSFUL'})
        obligations = len([q for q in s.queries if q.required]) + len([k for k in s.kani if k.get('required', True)])
        discharged = len([q for q in s.queries if q.required and q.verdict == q.expect]) + len([k for k in s.kani if k.get('required', True) and k.get('verdict') == 'SUCCESSFUL'])
        ev = {
            'property_id': s.pid, 'tier': s.tier, 'seed': s.seed, 'level': 'model_checking',
            'coverage': {
                'evaluations': max(nq, 1), 'distinct_nontrivial': nontrivial,
                'rule': 'one evaluation = one solver query (cvc5, z3-new as second opinion) over the encoding of the real MIR, or one Kani/CBMC harness over the compiled code; non-trivial = not constant-folded away by the encoder (definitions > 0) and verdict as expected (claims UNSAT, vacuity twins SAT, cover witnesses SATISFIED); distinct by query/harness name',
                'samples': s.samples[:12] or [q.as_json() for q in s.queries[:5]] or s.kani[:5],
                'obligations': obligations, 'discharged': discharged,
                'traces_validated_against_impl': s.validated,
                'functions_encoded': s.functions, 'bounds': s.bounds, 'stubs': s.stubs,
                'queries': [q.as_json() for q in s.queries], 'kani_harnesses': s.kani,
                'solver_seconds': round(s.solver_seconds, 1),
                'checker_cmd': f'./check {s.pid} --tier {s.tier}',
                'trusted_base': s.trusted,
                'explanation': s.explanation,
                'not_covered_this_run': s.not_covered, 'inconclusive': s.inconclusive,
                'known_findings_hit': s.known_hits,
                'repo_fingerprint': repo_fingerprint(),
                'exhaustive': False,
            },
            'assumptions': s.assumptions, 'wall_s': round(wall, 1), 'violations': len(s.violations),
        }
        ev['coverage'].update(s.extra)
        # evidence always goes to /verif/evidence, except when a seeded change is being evaluated on a scratch copy of the repository
        # (tools_seed.py sets VERIF_EVIDENCE_DIR so that the committed evidence keeps describing the unchanged tree)
        evdir = os.environ.get('VERIF_EVIDENCE_DIR') or os.path.join(VERIF, 'evidence')
        os.makedirs(evdir, exist_ok=True)
        with open(os.path.join(evdir, f'{s.pid}.json'), 'w') as fh:
            json.dump(ev, fh, indent=1, default=str)
        for k in s.known_hits:
            print(f'KNOWN-FINDING: property={s.pid} {k}')
        for text, path in s.violations:
            print(f'VIOLATION property={s.pid} replay={path}')
            print(f'  {text}')
        print(f'[{s.pid}] tier={s.tier} queries={len(s.queries)} harnesses={len(s.kani)} discharged={discharged}/{obligations} '
              f'violations={len(s.violations)} inconclusive={len(s.inconclusive)} not_covered={len(s.not_covered)} wall={wall:.0f}s')
        if s.violations:
            sys.exit(1)
        if s.inconclusive:
            for i in s.inconclusive:
                print(f'INCONCLUSIVE: {i}')
            sys.exit(2)
        sys.exit(0)


# ---------------------------------------------------------------- overlay of the real source (scratch only)
OVERLAY_HOOKS = [
    # (module file, child dir for the module's children, kani harness file, replay file)
    ('src/datetime/mod.rs', 'src/datetime', 'kani/datetime.rs', 'replay/overlay/datetime/verif_replay.rs'),
    ('src/timezone/mod.rs', 'src/timezone', 'kani/timezone.rs', 'replay/overlay/timezone/verif_replay.rs'),
    ('src/timezone/rule.rs', 'src/timezone/rule', 'kani/rule.rs', 'replay/overlay/rule/verif_replay.rs'),
    ('src/parse/mod.rs', 'src/parse', 'kani/parse.rs', None),
    ('src/parse/tz_string.rs', 'src/parse/tz_string', 'kani/tz_string.rs', None),
    ('src/parse/tz_file.rs', 'src/parse/tz_file', 'kani/tz_file.rs', None),
]


DROPPED = {}   # harness name -> reason: harnesses of sections whose private unit no longer exists in the working tree


def filter_sections(text, src):
    """A harness file may mark blocks   // @begin needs: <regex> ;; <regex>   ...   // @end   . A block is kept only if every
    regex matches the (whitespace-normalised) source of the module it is compiled into: a refactor that removes or re-types a private
    unit then costs the harnesses written against that unit (reported, never a pass) instead of the whole harness file."""
    norm = re.sub(r'\s+', ' ', src)
    out, i = [], 0
    lines = text.split('\n')
    while i < len(lines):
        m = re.match(r'\s*// @begin needs: (.*)$', lines[i])
        if not m:
            out.append(lines[i])
            i += 1
            continue
        needs = [x.strip() for x in m.group(1).split(';;') if x.strip()]
        j = i + 1
        while j < len(lines) and not re.match(r'\s*// @end', lines[j]):
            j += 1
        block = lines[i:j + 1]
        missing = [n for n in needs if not re.search(n, norm)]
        if missing:
            btxt = '\n'.join(block)
            for h in re.findall(r'#\[kani::proof\](?:\s*#\[[^\n]*\])*\s*fn (\w+)', btxt):
                DROPPED[h] = 'the working tree has no item matching ' + ' / '.join(missing)
        else:
            out += block
        i = j + 1
    return '\n'.join(out)


def build_overlay(dst, kani=True, replay=True, allow_unsafe=False):
    """scratch copy of /repo's working tree + add-only child modules (never written to /repo)"""
    copy_repo(dst)
    for modfile, childdir, kfile, rfile in OVERLAY_HOOKS:
        p = os.path.join(dst, modfile)
        if not os.path.exists(p):
            raise Inconclusive(f'overlay: {modfile} no longer exists (harness out of date)')
        add = ''
        kp = os.path.join(VERIF, kfile)
        if kani and os.path.exists(kp):
            os.makedirs(os.path.join(dst, childdir), exist_ok=True)
            with open(os.path.join(dst, childdir, 'verif_kani.rs'), 'w') as fh:
                fh.write(filter_sections(open(kp).read(), open(p).read()))
            add += '\n#[cfg(kani)]\npub(crate) mod verif_kani;\n'
        if replay and rfile:
            os.makedirs(os.path.join(dst, childdir), exist_ok=True)
            shutil.copy(os.path.join(VERIF, rfile), os.path.join(dst, childdir, 'verif_replay.rs'))
            add += '\n#[cfg(verif_replay)]\n#[allow(missing_docs)]\npub mod verif_replay;\n'
        if add:
            with open(p, 'a') as fh:
                fh.write(add)
    if allow_unsafe:
        lp = os.path.join(dst, 'src/lib.rs')
        s = open(lp).read()
        if '#![forbid(unsafe_code)]' in s:
            open(lp, 'w').write(s.replace('#![forbid(unsafe_code)]', '#![deny(unsafe_code)]'))
    return dst


class Native:
    """the real crate, natively compiled from the overlay copy (dev and release), driven line by line"""

    def __init__(s, profiles=('dev', 'release')):
        s.dir = os.path.join(scratch(), 'native')
        s.bins = {}
        os.makedirs(s.dir, exist_ok=True)
        build_overlay(os.path.join(s.dir, 'ov'), kani=False, replay=True)
        shutil.copytree(os.path.join(VERIF, 'replay/bin'), os.path.join(s.dir, 'bin'), dirs_exist_ok=True)
        env = dict(ENV)
        env['CARGO_TARGET_DIR'] = os.path.join(s.dir, 'target')
        env['RUSTFLAGS'] = '--cfg verif_replay -C overflow-checks=on -A unexpected_cfgs' 
        for prof in profiles:
            e = dict(env)
            if prof == 'release':
                e['RUSTFLAGS'] = '--cfg verif_replay -A unexpected_cfgs'
                e['CARGO_TARGET_DIR'] = os.path.join(s.dir, 'target_rel')
            cmd = ['cargo', 'build', '--offline', '-q'] + (['--release'] if prof == 'release' else [])
            p = subprocess.run(cmd, cwd=os.path.join(s.dir, 'bin'), env=e, capture_output=True, text=True)
            if p.returncode != 0:
                raise Inconclusive('native replay build failed (' + prof + '):\n' + p.stderr[-3000:])
            s.bins[prof] = os.path.join(e['CARGO_TARGET_DIR'], 'release' if prof == 'release' else 'debug', 'tzreplay')

    def run(s, lines, profile='dev'):
        p = subprocess.run([s.bins[profile]], input='\n'.join(lines) + '\n', capture_output=True, text=True)
        out = p.stdout.split('\n')
        if out and out[-1] == '':
            out = out[:-1]
        if len(out) != len(lines):
            raise Inconclusive(f'native replay produced {len(out)} lines for {len(lines)} commands: {p.stderr[-500:]}')
        return out

    def both(s, lines):
        """run in every built profile; returns list of (dev, release) answers"""
        outs = [s.run(lines, p) for p in s.bins]
        return list(zip(*outs))
