#!/usr/bin/env python3
"""Shared plumbing of the checks: scratch copies of /repo, MIR dumps, solver runs, evidence, exit codes."""
import os, sys, json, time, shutil, subprocess, tempfile, atexit, hashlib, random, re, threading
from concurrent.futures import ThreadPoolExecutor

VERIF = os.path.dirname(os.path.dirname(os.path.abspath(__file__)))
REPO = os.environ.get('VERIF_REPO', '/repo')
NCPU = os.cpu_count() or 4

ENV = dict(os.environ)
ENV.update({'CARGO_NET_OFFLINE': 'true', 'CARGO_TERM_COLOR': 'never'})

_scratch = None


def scratch():
    """per-run scratch directory outside /repo and /verif, removed at exit"""
    global _scratch
    if _scratch is None:
        base = os.environ.get('VERIF_SCRATCH_BASE') or ('/var/tmp' if os.path.isdir('/var/tmp') else tempfile.gettempdir())
        _scratch = tempfile.mkdtemp(prefix='tzverif.', dir=base)
        if not os.environ.get('VERIF_KEEP'):
            atexit.register(lambda: shutil.rmtree(_scratch, ignore_errors=True))
    return _scratch


def copy_repo(dst, extra_files=None):
    os.makedirs(dst, exist_ok=True)
    for f in ('Cargo.toml', 'Cargo.lock'):
        shutil.copy(os.path.join(REPO, f), os.path.join(dst, f))
    shutil.copytree(os.path.join(REPO, 'src'), os.path.join(dst, 'src'), dirs_exist_ok=True)
    return dst


def repo_fingerprint():
    h = hashlib.sha256()
    for root, _, files in sorted(os.walk(os.path.join(REPO, 'src'))):
        for f in sorted(files):
            p = os.path.join(root, f)
            h.update(p.encode())
            h.update(open(p, 'rb').read())
    return h.hexdigest()[:16]


FEATURES = {'default': [], 'alloc': ['--no-default-features', '--features', 'alloc'], 'nostd': ['--no-default-features']}


def mir_dump(features='default', append=None, tag=None):
    """MIR text of /repo's current working tree (scratch copy), overflow checks on. `append` maps a
    relative source path to text appended in the scratch copy only (reference functions for C18/C20)."""
    d = os.path.join(scratch(), 'mir_' + (tag or features))
    if os.path.exists(d):
        shutil.rmtree(d)
    copy_repo(d)
    for rel, text in (append or {}).items():
        with open(os.path.join(d, rel), 'a') as fh:
            fh.write('\n' + text + '\n')
    cmd = ['cargo', '+nightly', 'rustc', '--offline', '--lib'] + FEATURES[features] + ['--', '-Zunpretty=mir', '-Ztrim-diagnostic-paths=no', '-C', 'debug-assertions=off', '-C', 'overflow-checks=on']
    env = dict(ENV)
    env['CARGO_TARGET_DIR'] = os.path.join(d, 'target')
    t0 = time.time()
    p = subprocess.run(cmd, cwd=d, env=env, capture_output=True, text=True)
    if p.returncode != 0 or len(p.stdout) < 1000:
        raise Inconclusive('MIR dump failed (the tree does not compile with the pinned nightly?):\n' + p.stderr[-2000:])
    shutil.rmtree(os.path.join(d, 'target'), ignore_errors=True)
    return p.stdout, d, time.time() - t0


class Inconclusive(Exception):
    pass


# ---------------------------------------------------------------- solvers
SOLVERS = {
    'cvc5': lambda f, t: ['cvc5', '--lang', 'smt2', '--produce-models', f'--tlimit={int(t * 1000)}', f],
    'z3': lambda f, t: ['z3-new', f'-T:{int(t)}', f],
}


def run_solver(solver, script, timeout, keep_as=None):
    d = os.path.join(scratch(), 'smt')
    os.makedirs(d, exist_ok=True)
    fn = os.path.join(d, (keep_as or hashlib.sha1(script.encode()).hexdigest()[:16]) + f'.{solver}.smt2')
    with open(fn, 'w') as fh:
        fh.write(script)
    t0 = time.time()
    try:
        p = subprocess.run(SOLVERS[solver](fn, timeout), capture_output=True, text=True, timeout=timeout + 15)
        out = p.stdout + p.stderr
    except subprocess.TimeoutExpired:
        return 'timeout', '', time.time() - t0
    dt = time.time() - t0
    lines = [l.strip() for l in out.split('\n') if l.strip()]
    vi = next((i for i, l in enumerate(lines) if l in ('sat', 'unsat', 'unknown')), None)
    if vi is None:
        if any('timeout' in l.lower() or 'interrupted' in l.lower() for l in lines) or dt >= timeout - 1:
            return 'timeout', out, dt
        return 'error', out, dt
    if any(l.startswith('(error') for l in lines[:vi]):
        return 'error', out, dt
    v = lines[vi]
    rest = lines[vi + 1:]
    if v == 'unsat':
        # the trailing get-value legitimately fails after unsat; anything else is an error
        if any(l.startswith('(error') and not re.search(r'[Cc]annot get value|model is not available|get-value', l) for l in rest):
            return 'error', out, dt
        return v, '', dt
    if v == 'sat':
        if any(l.startswith('(error') for l in rest):
            return 'error', out, dt
        return v, '\n'.join(rest), dt
    return ('timeout' if dt >= timeout * 0.9 else 'unknown'), out, dt


def parse_model(txt):
    """((x 5) (y (- 3)) (b true)) -> dict"""
    m = {}
    for nm, val in re.findall(r'\(([A-Za-z_][A-Za-z0-9_]*) ((?:\(- \d+\))|(?:-?\d+)|true|false)\)', txt):
        if val in ('true', 'false'):
            m[nm] = (val == 'true')
        elif val.startswith('(-'):
            m[nm] = -int(val[3:-1])
        else:
            m[nm] = int(val)
    return m


class Query:
    def __init__(s, name, script, expect='unsat', kind='claim', required=True, cap=None, ndefs=0, meaning='', get=None):
        s.name, s.script, s.expect, s.kind, s.required, s.cap, s.ndefs, s.meaning = name, script, expect, kind, required, cap, ndefs, meaning
        s.verdict = None
        s.secs = 0.0
        s.model = {}
        s.z3 = None
        s.z3_secs = 0.0
        s.raw = ''

    def as_json(s):
        d = {'name': s.name, 'kind': s.kind, 'expect': s.expect, 'solver': 'cvc5', 'verdict': s.verdict, 'seconds': round(s.secs, 2), 'definitions': s.ndefs, 'required': s.required}
        if s.z3 is not None:
            d['z3'] = s.z3
            d['z3_seconds'] = round(s.z3_secs, 2)
        if s.meaning:
            d['meaning'] = s.meaning
        return d


def run_queries(queries, cap, z3cap, workers=None, log=None):
    """decide every query with cvc5 (primary) and z3-new (second opinion, short cap) in parallel"""
    workers = workers or max(2, NCPU - 2)
    lock = threading.Lock()

    def one(q):
        v, out, dt = run_solver('cvc5', q.script, q.cap or cap, keep_as=re.sub(r'[^A-Za-z0-9_.-]', '_', q.name)[:80])
        q.verdict, q.secs, q.raw = v, dt, out
        if v == 'sat':
            q.model = parse_model(out)
        if log:
            with lock:
                log(f'  [cvc5] {v:8} {dt:7.1f}s  {q.name}')
        return q

    def two(q):
        v, out, dt = run_solver('z3', q.script, z3cap, keep_as=re.sub(r'[^A-Za-z0-9_.-]', '_', q.name)[:80])
        q.z3, q.z3_secs = v, dt
        if v == 'sat' and not q.model:
            q.z3_model = parse_model(out)
        return q
    with ThreadPoolExecutor(max_workers=workers) as ex:
        futs = [ex.submit(one, q) for q in queries]
        futs2 = [ex.submit(two, q) for q in queries] if z3cap > 0 else []
        for f in futs + futs2:
            f.result()
    return queries


# ---------------------------------------------------------------- known findings
def load_known():
    p = os.path.join(VERIF, 'known_findings.json')
    if not os.path.exists(p):
        return {'findings': [], 'fixed': []}
    return json.load(open(p))


# ---------------------------------------------------------------- the check object
class Check:
    def __init__(s, pid, tier, seed):
        s.pid, s.tier, s.seed = pid, tier, seed
        s.t0 = time.time()
        s.rng = random.Random(seed)
        s.queries = []       # Query objects and kani result dicts
        s.kani = []
        s.functions = []
        s.bounds = []
        s.stubs = []
        s.assumptions = []
        s.trusted = []
        s.samples = []
        s.violations = []    # (text, replay path)
        s.known_hits = []    # text
        s.inconclusive = []  # required items without verdict
        s.not_covered = []   # optional items without verdict
        s.validated = 0      # translator validation vectors / replays that agreed with native
        s.explanation = ''
        s.extra = {}
        s.solver_seconds = 0.0

    def log(s, *a):
        print(*a, flush=True)

    # -- bookkeeping of SMT queries
    def absorb(s, queries):
        for q in queries:
            s.queries.append(q)
            s.solver_seconds += q.secs + (q.z3_secs or 0)
            if q.verdict in ('sat', 'unsat') and q.z3 in ('sat', 'unsat') and q.z3 != q.verdict:
                s.inconclusive.append(f'solver disagreement on {q.name}: cvc5={q.verdict} z3={q.z3}')
            if q.verdict not in ('sat', 'unsat'):
                # fall back on z3's verdict when cvc5 gave none
                if q.z3 in ('sat', 'unsat'):
                    q.verdict = q.z3
                    q.model = getattr(q, 'z3_model', {})
                    q.decided_by = 'z3'
                    continue
                (s.inconclusive if q.required else s.not_covered).append(f'{q.name}: {q.verdict} after {q.secs:.0f}s')

    def violation(s, text, case):
        os.makedirs(os.path.join(VERIF, 'replays'), exist_ok=True)
        h = hashlib.sha1(json.dumps(case, sort_keys=True).encode()).hexdigest()[:10]
        path = os.path.join(VERIF, 'replays', f'{s.pid}-{h}.json')
        with open(path, 'w') as fh:
            json.dump({'property': s.pid, 'what': text, 'case': case}, fh, indent=1)
        s.violations.append((text, path))

    def finish(s):
        wall = time.time() - s.t0
        nq = len(s.queries) + len(s.kani)
        decided = [q for q in s.queries if q.verdict in ('sat', 'unsat') and q.verdict == q.expect] + [k for k in s.kani if k.get('verdict') == 'SUCCESSFUL']
        nontrivial = len({q.name for q in s.queries if q.verdict == q.expect and q.ndefs > 0}) + len({k['harness'] for k in s.kani if k.get('verdict') == 'SUCCESSFUL'})
        obligations = len([q for q in s.queries if q.required]) + len([k for k in s.kani if k.get('required', True)])
        discharged = len([q for q in s.queries if q.required and q.verdict == q.expect]) + len([k for k in s.kani if k.get('required', True) and k.get('verdict') == 'SUCCESSFUL'])
        ev = {
            'property_id': s.pid, 'tier': s.tier, 'seed': s.seed, 'level': 'model_checking',
            'coverage': {
                'evaluations': max(nq, 1), 'distinct_nontrivial': nontrivial,
                'rule': 'one evaluation = one solver query (cvc5, z3-new as second opinion) over the encoding of the real MIR, or one Kani/CBMC harness over the compiled code; non-trivial = not constant-folded away by the encoder (definitions > 0) and verdict as expected (claims UNSAT, vacuity twins SAT, cover witnesses SATISFIED); distinct by query/harness name',
                'samples': s.samples[:12] or [q.as_json() for q in s.queries[:5]] or s.kani[:5],
                'obligations': obligations, 'discharged': discharged,
                'traces_validated_against_impl': s.validated,
                'functions_encoded': s.functions, 'bounds': s.bounds, 'stubs': s.stubs,
                'queries': [q.as_json() for q in s.queries], 'kani_harnesses': s.kani,
                'solver_seconds': round(s.solver_seconds, 1),
                'checker_cmd': f'./check {s.pid} --tier {s.tier}',
                'trusted_base': s.trusted,
                'explanation': s.explanation,
                'not_covered_this_run': s.not_covered, 'inconclusive': s.inconclusive,
                'known_findings_hit': s.known_hits,
                'repo_fingerprint': repo_fingerprint(),
                'exhaustive': False,
            },
            'assumptions': s.assumptions, 'wall_s': round(wall, 1), 'violations': len(s.violations),
        }
        ev['coverage'].update(s.extra)
        os.makedirs(os.path.join(VERIF, 'evidence'), exist_ok=True)
        with open(os.path.join(VERIF, 'evidence', f'{s.pid}.json'), 'w') as fh:
            json.dump(ev, fh, indent=1, default=str)
        for k in s.known_hits:
            print(f'KNOWN-FINDING: property={s.pid} {k}')
        for text, path in s.violations:
            print(f'VIOLATION property={s.pid} replay={path}')
            print(f'  {text}')
        print(f'[{s.pid}] tier={s.tier} queries={len(s.queries)} harnesses={len(s.kani)} discharged={discharged}/{obligations} '
              f'violations={len(s.violations)} inconclusive={len(s.inconclusive)} not_covered={len(s.not_covered)} wall={wall:.0f}s')
        if s.violations:
            sys.exit(1)
        if s.inconclusive:
            for i in s.inconclusive:
                print(f'INCONCLUSIVE: {i}')
            sys.exit(2)
        sys.exit(0)


# ---------------------------------------------------------------- overlay of the real source (scratch only)
OVERLAY_HOOKS = [
    # (module file, child dir for the module's children, kani harness file, replay file)
    ('src/datetime/mod.rs', 'src/datetime', 'kani/datetime.rs', 'replay/overlay/datetime/verif_replay.rs'),
    ('src/timezone/mod.rs', 'src/timezone', 'kani/timezone.rs', 'replay/overlay/timezone/verif_replay.rs'),
    ('src/timezone/rule.rs', 'src/timezone/rule', 'kani/rule.rs', 'replay/overlay/rule/verif_replay.rs'),
    ('src/parse/mod.rs', 'src/parse', 'kani/parse.rs', None),
    ('src/parse/tz_string.rs', 'src/parse/tz_string', 'kani/tz_string.rs', None),
    ('src/parse/tz_file.rs', 'src/parse/tz_file', 'kani/tz_file.rs', None),
]


def build_overlay(dst, kani=True, replay=True, allow_unsafe=False):
    """scratch copy of /repo's working tree + add-only child modules (never written to /repo)"""
    copy_repo(dst)
    for modfile, childdir, kfile, rfile in OVERLAY_HOOKS:
        p = os.path.join(dst, modfile)
        if not os.path.exists(p):
            raise Inconclusive(f'overlay: {modfile} no longer exists (harness out of date)')
        add = ''
        kp = os.path.join(VERIF, kfile)
        if kani and os.path.exists(kp):
            os.makedirs(os.path.join(dst, childdir), exist_ok=True)
            shutil.copy(kp, os.path.join(dst, childdir, 'verif_kani.rs'))
            add += '\n#[cfg(kani)]\nmod verif_kani;\n'
        if replay and rfile:
            os.makedirs(os.path.join(dst, childdir), exist_ok=True)
            shutil.copy(os.path.join(VERIF, rfile), os.path.join(dst, childdir, 'verif_replay.rs'))
            add += '\n#[cfg(verif_replay)]\n#[allow(missing_docs)]\npub mod verif_replay;\n'
        if add:
            with open(p, 'a') as fh:
                fh.write(add)
    if allow_unsafe:
        lp = os.path.join(dst, 'src/lib.rs')
        s = open(lp).read()
        if '#![forbid(unsafe_code)]' in s:
            open(lp, 'w').write(s.replace('#![forbid(unsafe_code)]', '#![deny(unsafe_code)]'))
    return dst


class Native:
    """the real crate, natively compiled from the overlay copy (dev and release), driven line by line"""

    def __init__(s, profiles=('dev', 'release')):
        s.dir = os.path.join(scratch(), 'native')
        s.bins = {}
        os.makedirs(s.dir, exist_ok=True)
        build_overlay(os.path.join(s.dir, 'ov'), kani=False, replay=True)
        shutil.copytree(os.path.join(VERIF, 'replay/bin'), os.path.join(s.dir, 'bin'), dirs_exist_ok=True)
        shutil.copy(os.path.join(REPO, 'Cargo.lock'), os.path.join(s.dir, 'bin', 'Cargo.lock'))
        env = dict(ENV)
        env['CARGO_TARGET_DIR'] = os.path.join(s.dir, 'target')
        env['RUSTFLAGS'] = '--cfg verif_replay -C overflow-checks=on -A unexpected_cfgs' 
        for prof in profiles:
            e = dict(env)
            if prof == 'release':
                e['RUSTFLAGS'] = '--cfg verif_replay -A unexpected_cfgs'
                e['CARGO_TARGET_DIR'] = os.path.join(s.dir, 'target_rel')
            cmd = ['cargo', 'build', '--offline', '-q'] + (['--release'] if prof == 'release' else [])
            p = subprocess.run(cmd, cwd=os.path.join(s.dir, 'bin'), env=e, capture_output=True, text=True)
            if p.returncode != 0:
                raise Inconclusive('native replay build failed (' + prof + '):\n' + p.stderr[-3000:])
            s.bins[prof] = os.path.join(e['CARGO_TARGET_DIR'], 'release' if prof == 'release' else 'debug', 'tzreplay')

    def run(s, lines, profile='dev'):
        p = subprocess.run([s.bins[profile]], input='\n'.join(lines) + '\n', capture_output=True, text=True)
        out = p.stdout.split('\n')
        if out and out[-1] == '':
            out = out[:-1]
        if len(out) != len(lines):
            raise Inconclusive(f'native replay produced {len(out)} lines for {len(lines)} commands: {p.stderr[-500:]}')
        return out

    def both(s, lines):
        """run in every built profile; returns list of (dev, release) answers"""
        outs = [s.run(lines, p) for p in s.bins]
        return list(zip(*outs))
