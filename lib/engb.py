#!/usr/bin/env python3
"""Engine B driver: Kani/CBMC proof harnesses compiled into a scratch overlay copy of /repo's working tree."""
import os, re, time, subprocess, shutil, threading, json
from concurrent.futures import ThreadPoolExecutor
import common

KANI_MEM_KB = int(os.environ.get('VERIF_KANI_MEM_GB', '22')) * 1024 * 1024   # ulimit -v (virtual): the large search harnesses map ~1.5x their 10-12 GB RSS


class H:
    """one harness to run"""

    def __init__(s, name, cap=600, required=True, features='default', covers=None, meaning='', expect='SUCCESSFUL', unsafe=False, role=None, decode=None, extra_args=None, playback=False):
        s.playback_ok = playback   # True: no behaviour-changing stubs, so the harness itself can be replayed natively on a counterexample
        s.name, s.cap, s.required, s.features, s.covers, s.meaning, s.expect, s.unsafe, s.role, s.decode = name, cap, required, features, covers, meaning, expect, unsafe, role, decode
        s.extra_args = extra_args or []
        s.verdict = None
        s.secs = 0.0
        s.failed_checks = []
        s.cover_ok = s.cover_total = 0
        s.out = ''
        s.playback = None


FEAT = {'default': [], 'alloc': ['--no-default-features', '--features', 'alloc'], 'nostd': ['--no-default-features']}


class EngineB:
    def __init__(s, ck):
        s.ck = ck
        s.root = os.path.join(common.scratch(), 'kani')
        os.makedirs(s.root, exist_ok=True)
        s.ovs = {}

    def overlay(s, unsafe=False):
        # one overlay for all harnesses: the crate attribute forbid(unsafe_code) is rewritten to deny(unsafe_code) in the scratch
        # copy because the S_utf8 stub in kani/tz_string.rs needs one `unsafe` expression (lint level only: no effect on codegen)
        key = 'ov'
        if key not in s.ovs:
            d = os.path.join(s.root, key)
            common.build_overlay(d, kani=True, replay=False, allow_unsafe=True)
            s.ovs[key] = d
        return s.ovs[key]

    def _run_one(s, h, playback=False):
        ov = s.overlay(h.unsafe)
        tgt = os.path.join(s.root, 'tgt_' + re.sub(r'\W', '_', h.name) + ('_' + h.features if h.features != 'default' else ''))
        cmd = ['cargo', 'kani', '-Z', 'stubbing', '--harness', h.name, '--target-dir', tgt, '--output-format', 'terse'] + FEAT[h.features] + h.extra_args
        if playback:
            cmd = ['cargo', 'kani', '-Z', 'stubbing', '-Z', 'concrete-playback', '--concrete-playback=print', '--harness', h.name, '--target-dir', tgt] + FEAT[h.features] + h.extra_args
        env = dict(common.ENV)
        t0 = time.time()
        mem = KANI_MEM_KB * (2 if playback else 1)   # trace generation for concrete playback needs more memory than the plain verdict
        sh = f'ulimit -v {mem}; exec timeout {int(h.cap * (2 if playback else 1))} ' + ' '.join(cmd)
        p = subprocess.run(['bash', '-c', sh], cwd=ov, env=env, capture_output=True, text=True)
        dt = time.time() - t0
        out = p.stdout + '\n' + p.stderr
        shutil.rmtree(tgt, ignore_errors=True)
        return p.returncode, out, dt

    def classify(s, h, rc, out, dt):
        h.out = out[-6000:]
        h.secs = dt
        if 'VERIFICATION:- SUCCESSFUL' in out:
            h.verdict = 'SUCCESSFUL'
        elif 'VERIFICATION:- FAILED' in out:
            h.verdict = 'FAILED'
            if re.search(r'Status: ERROR|CBMC failed|out of memory|std::bad_alloc|Killed|unwinding assertion', out) and not re.search(r'Failed Checks: (?!unwinding)', out):
                if re.search(r'out of memory|std::bad_alloc|CBMC failed|Status: ERROR', out):
                    h.verdict = 'ERROR'
        elif rc == 124 or dt >= h.cap - 1:
            h.verdict = 'TIMEOUT'
        elif 'error: could not compile' in out or 'error[E' in out:
            h.verdict = 'COMPILE_ERROR'
        else:
            h.verdict = 'ERROR'
        h.failed_checks = list(dict.fromkeys(re.findall(r'Failed Checks: (.*)', out)))
        nh = len(re.findall(r'Checking harness ', out))
        if nh > 1:
            h.verdict = 'ERROR'
            h.out = f'harness name {h.name} matched {nh} harnesses (substring match): rename'

        m = re.search(r'\*\* (\d+) of (\d+) cover properties satisfied(?: \((\d+) unreachable\))?', out)
        if m:
            # covers in branches that are dead by construction (constant harness flags) are reported "unreachable": not counted
            h.cover_ok, h.cover_total = int(m.group(1)), int(m.group(2)) - int(m.group(3) or 0)
        mc = re.search(r'\*\* (\d+) of (\d+) failed', out)
        h.checks_total = int(mc.group(2)) if mc else None
        h.checks_failed = int(mc.group(1)) if mc else None
        m = re.search(r'Verification Time: ([\d.]+)s', out)
        h.cbmc_secs = float(m.group(1)) if m else None

    def run(s, harnesses, workers=None):
        ck = s.ck
        workers = workers or min(6, max(2, common.NCPU // 2))
        lock = threading.Lock()
        for u in {h.unsafe for h in harnesses}:
            s.overlay(u)

        def one(h):
            if h.name in common.DROPPED:
                h.verdict, h.out, h.secs = 'DROPPED', common.DROPPED[h.name], 0.0
                with lock:
                    ck.log(f'  [kani] DROPPED      {h.name}: {common.DROPPED[h.name]} (harness out of date)')
                return h
            rc, out, dt = s._run_one(h)
            s.classify(h, rc, out, dt)
            with lock:
                ck.log(f'  [kani] {h.verdict:12} {dt:7.1f}s  {h.name}{"" if h.features == "default" else " (" + h.features + ")"}  covers {h.cover_ok}/{h.cover_total}' + (f'  failed: {h.failed_checks[:3]}' if h.failed_checks else ''))
            return h
        with ThreadPoolExecutor(max_workers=workers) as ex:
            list(ex.map(one, harnesses))
        for h in harnesses:
            rec = {'harness': h.name, 'features': h.features, 'verdict': h.verdict, 'expect': h.expect, 'seconds': round(h.secs, 1), 'required': h.required, 'meaning': h.meaning,
                   'cover_satisfied': h.cover_ok, 'cover_total': h.cover_total, 'failed_checks': h.failed_checks[:6],
                   'cbmc_checks_total': getattr(h, 'checks_total', None), 'cbmc_seconds': getattr(h, 'cbmc_secs', None)}
            ck.kani.append(rec)
            ck.solver_seconds += h.secs
            if h.verdict == 'SUCCESSFUL':
                if h.cover_total and h.cover_ok < h.cover_total:
                    (ck.inconclusive if h.required else ck.not_covered).append(f'{h.name}: only {h.cover_ok}/{h.cover_total} reachability witnesses satisfied (harness partly vacuous)')
            elif h.verdict == 'DROPPED':
                # never a pass: the unit this harness was written against is gone or re-typed
                ck.inconclusive.append(f'{h.name}: harness out of date - {h.out}')
            elif h.verdict in ('TIMEOUT', 'ERROR', 'COMPILE_ERROR'):
                msg = f'{h.name}: {h.verdict} after {h.secs:.0f}s' + (': ' + ' | '.join(l for l in h.out.split('\n') if l.startswith('error'))[:600] if h.verdict != 'TIMEOUT' else '')
                (ck.inconclusive if h.required else ck.not_covered).append(msg)
        return harnesses

    def playback(s, h):
        """concrete-playback values of a FAILED harness: list of byte vectors in the order of the kani::any() calls"""
        rc, out, dt = s._run_one(h, playback=True)
        vecs = []
        blocks = re.findall(r'/// Check for `(\w+)`: "([^"]*)".*?let concrete_vals: Vec<Vec<u8>> = vec!\[(.*?)\];', out, re.S)
        # witnesses of cover properties are printed too: take the first block that belongs to a failed check
        blocks = [b for b in blocks if b[0] != 'cover'] or []
        for kind, desc, blk in blocks[:1]:
            for v in re.findall(r'vec!\[([^\]]*)\]', blk):
                vecs.append([int(x) for x in v.replace(' ', '').split(',') if x != ''])
            h.playback_check = desc
        h.playback = vecs
        return vecs


def native_playback(B, h, vecs, release=False):
    """run the harness itself natively (cargo kani playback) on the concrete values of a counterexample: the real compiled
    code (no stubs, no model) must exhibit the failing assertion. Only meaningful for harnesses whose stubs are S_unreach."""
    ov = os.path.join(B.root, 'pb_' + re.sub(r'\W', '_', h.name))
    common.build_overlay(ov, kani=True, replay=False, allow_unsafe=True)
    src = None
    for root, _, files in os.walk(os.path.join(ov, 'src')):
        for f in files:
            if f == 'verif_kani.rs':
                p = os.path.join(root, f)
                txt = open(p).read()
                if re.search(r'fn %s\s*\(' % re.escape(h.name), txt) or re.search(r'!\(\s*%s\s*,' % re.escape(h.name), txt):
                    src = p
    if not src:
        return None, 'harness source not found'
    test = '\n#[test]\nfn verif_playback() {\n    extern crate std;\n    let concrete_vals: std::vec::Vec<std::vec::Vec<u8>> = std::vec![' + ', '.join('std::vec![' + ', '.join(map(str, v)) + ']' for v in vecs) + \
           f'];\n    kani::concrete_playback_run(concrete_vals, {h.name});\n}}\n'
    # place the test in the same module as the harness (nested `mod` blocks: append before the final closing brace of that mod if needed)
    txt = open(src).read()
    m = re.search(r'\nmod (\w+) \{', txt)
    if m and txt.find('fn ' + h.name) > m.start() or (m and re.search(r'!\(\s*%s\s*,' % re.escape(h.name), txt[m.start():])):
        k = txt.rstrip().rfind('}')
        txt = txt[:k] + test + '}\n'
    else:
        txt = txt + test
    open(src, 'w').write(txt)
    env = dict(common.ENV)
    cmd = 'cargo kani playback -Z concrete-playback ' + ' '.join(FEAT[h.features]) + (' --release' if release else '') + ' -- verif_playback'
    p = subprocess.run(['bash', '-c', f'exec timeout 900 {cmd}'], cwd=ov, env=env, capture_output=True, text=True)
    out = p.stdout + p.stderr
    shutil.rmtree(os.path.join(ov, 'target'), ignore_errors=True)
    if re.search(r'test result: FAILED', out) or 'panicked at' in out:
        msg = re.search(r'panicked at [^\n]*\n([^\n]*)', out)
        return True, (msg.group(0).replace('\n', ' ') if msg else 'test failed')[:400]
    if re.search(r'test result: ok', out):
        return False, 'playback test passed natively'
    return None, out[-800:]


def le_int(b, signed):
    v = int.from_bytes(bytes(b), 'little', signed=signed)
    return v


def decode(vecs, layout):
    """layout: list of (name, type) with type in i8..i128,u8..,bool,usize ; consumes one vector per scalar"""
    out = {}
    it = iter(vecs)
    for name, ty in layout:
        try:
            b = next(it)
        except StopIteration:
            break
        if ty == 'bool':
            out[name] = bool(b[0] & 1)
        else:
            out[name] = le_int(b, ty.startswith('i'))
    return out
