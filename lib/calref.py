"""Independent proleptic-Gregorian reference (python big ints) used ONLY to judge native replays of solver models
and translator-validation vectors; the solver-side oracle is the set of defining recurrences in props/c02.py."""


def is_leap(y):
    return y % 4 == 0 and (y % 100 != 0 or y % 400 == 0)


def dim(y, m):
    return [31, 29 if is_leap(y) else 28, 31, 30, 31, 30, 31, 31, 30, 31, 30, 31][m - 1]


def days_from_civil(y, m, d):
    """days since 1970-01-01 (H. Hinnant's algorithm, era-based; python floor division)"""
    y -= m <= 2
    era = y // 400
    yoe = y - era * 400
    doy = (153 * (m + (-3 if m > 2 else 9)) + 2) // 5 + d - 1
    doe = yoe * 365 + yoe // 4 - yoe // 100 + doy
    return era * 146097 + doe - 719468


def civil_from_days(z):
    z += 719468
    era = z // 146097
    doe = z - era * 146097
    yoe = (doe - doe // 1460 + doe // 36524 - doe // 146096) // 365
    y = yoe + era * 400
    doy = doe - (365 * yoe + yoe // 4 - yoe // 100)
    mp = (5 * doy + 2) // 153
    d = doy - (153 * mp + 2) // 5 + 1
    m = mp + (3 if mp < 10 else -9)
    return (y + (m <= 2), m, d)


def unix_time(y, m, d, h, mi, s):
    return ((days_from_civil(y, m, d) * 24 + h) * 60 + mi) * 60 + s


def gmtime(t):
    days, rem = divmod(t, 86400)
    y, m, d = civil_from_days(days)
    return (y, m, d, rem // 3600, rem // 60 % 60, rem % 60, (days + 4) % 7, days - days_from_civil(y, 1, 1))


def valid(y, m, d, h, mi, s, ns, smax=60):
    return 1 <= m <= 12 and 1 <= d <= dim(y, m) and 0 <= h <= 23 and 0 <= mi <= 59 and 0 <= s <= smax and 0 <= ns < 10**9


I32 = (-2**31, 2**31 - 1)
MIN_T = unix_time(I32[0], 1, 1, 0, 0, 0)
MAX_T = unix_time(I32[1], 12, 31, 23, 59, 59)

if __name__ == '__main__':
    import datetime
    for t in [0, 951782400, -1, 86400 * 365, 253402300799, -62135596800]:
        g = gmtime(t)
        dt = datetime.datetime(1970, 1, 1) + datetime.timedelta(seconds=t)
        assert g[:6] == (dt.year, dt.month, dt.day, dt.hour, dt.minute, dt.second), (t, g, dt)
        assert g[6] == (dt.weekday() + 1) % 7 and g[7] == dt.timetuple().tm_yday - 1
        assert unix_time(*g[:6]) == t
    print(MIN_T, MAX_T)


# ---- POSIX rule days (independent reference for judging native replays)
def rule_day_instant(day, year, dt):
    """day = ('J', n) | ('Z', n) | ('M', m, w, d); UTC instant of that rule day in `year` at day-time dt (seconds, already in UTC)"""
    if day[0] == 'J':
        n = day[1]
        yd = n - 1 + (1 if is_leap(year) and n >= 60 else 0)
        return (days_from_civil(year, 1, 1) + yd) * 86400 + dt
    if day[0] == 'Z':
        return (days_from_civil(year, 1, 1) + day[1]) * 86400 + dt
    _, m, w, d = day
    first = days_from_civil(year, m, 1)
    ks = [k for k in range(1, dim(year, m) + 1) if (first + k - 1 + 4) % 7 == d]
    k = ks[-1] if w == 5 else ks[w - 1]
    return (first + k - 1) * 86400 + dt


def rule_is_dst(start, st, end, et, stdoff, dstoff, t, reading='A', span=4):
    """DST at instant t by the defining sentence of C04. Northern pattern (S(k)<=E(k)<=S(k+1)): periods [S(k),E(k));
    southern (E(k)<=S(k)<=E(k+1)): periods [S(k),E(k+1)). When both patterns hold (start and end coincide every year) the
    sentence is ambiguous: reading 'A' applies the northern formula, 'B' the southern one (callers require A == B)."""
    y = gmtime(t)[0]
    ys = list(range(y - span, y + span + 2))
    S = {k: rule_day_instant(start, k, st - stdoff) for k in ys}
    E = {k: rule_day_instant(end, k, et - dstoff) for k in ys}
    north = all(S[k] <= E[k] <= S[k + 1] for k in ys[:-1])
    south = all(E[k] <= S[k] <= E[k + 1] for k in ys[:-1])
    use_north = north and (not south or reading == 'A')
    if use_north:
        return any(S[k] <= t < E[k] for k in ys[:-1])
    return any(S[k] <= t < E[k + 1] for k in ys[:-1])


def rule_pattern(start, st, end, et, stdoff, dstoff, years):
    S = {k: rule_day_instant(start, k, st - stdoff) for k in years}
    E = {k: rule_day_instant(end, k, et - dstoff) for k in years}
    ys = [k for k in years if k + 1 in S]
    north = all(S[k] <= E[k] <= S[k + 1] for k in ys)
    south = all(E[k] <= S[k] <= E[k + 1] for k in ys)
    return north, south

I32_MIN, I32_MAX = -2**31, 2**31 - 1
