"""Reference judgement of the real search on DST-rule zones (no table), used to replay failures of the abstract rule-zone harnesses:
the native search is run on a corpus of concrete rules and local times around every start/end instant and compared with the
defining sentence (calref.rule_is_dst, both readings)."""
import calref

CORPUS = [
    # (std off, dst off, start day, start time, end day, end time, note)
    (-18000, -14400, ('Z', 0), 0, ('J', 365), 90000, 'all-year DST (EST5EDT,0/0,J365/25)'),
    (3600, 0, ('Z', 0), 0, ('J', 365), 82800, 'all-year negative DST'),
    (-18000, -14400, ('M', 3, 2, 0), 7200, ('M', 11, 1, 0), 7200, 'US'),
    (3600, 7200, ('M', 3, 5, 0), 7200, ('M', 10, 5, 0), 10800, 'EU'),
    (43200, 46800, ('M', 9, 5, 0), 9900, ('M', 4, 1, 0), 13500, 'NZ (southern)'),
    (-10800, -7200, ('M', 3, 5, 0), -7200, ('M', 10, 5, 0), -3600, 'negative times (Godthab)'),
    (0, 3600, ('J', 60), 0, ('J', 300), 0, 'Julian 1-based'),
    (0, 3600, ('Z', 59), 0, ('Z', 300), 0, 'Julian 0-based'),
    (0, -3600, ('M', 10, 5, 0), 7200, ('M', 3, 5, 0), 3600, 'negative DST in winter (Ireland)'),
    (-10800, -7200, ('J', 365), 82800, ('M', 2, 3, 0), 0, 'start on Dec 31 late (straddles New Year)'),
]


def day_cmd(d):
    return ' '.join(map(str, d))


def judge(nat, years=(2019, 2020, 2021)):
    """first (text, case) where the native search on a corpus rule contradicts the defining sentence, else None"""
    for (so, do, sd, st, ed, et, note) in CORPUS:
        z = f'T 0 L 2 {so} 0 - {do} 1 - S 0 R alt {so} 0 - {do} 1 - {day_cmd(sd)} {st} {day_cmd(ed)} {et}'
        if not nat.both([f'alt_new {so} 0 - {do} 1 - {day_cmd(sd)} {st} {day_cmd(ed)} {et}'])[0][0].startswith('ok'):
            continue
        cmds, meta = [], []
        for y in years:
            S = calref.rule_day_instant(sd, y, st - so)
            E = calref.rule_day_instant(ed, y, et - do)
            for T in (S, E):
                for off in (so, do):
                    for d in (-1, 0, 1, 1800, -1800):
                        c = T + off + d
                        f = calref.gmtime(c)[:6]
                        cmds.append(f'find {z} ' + ' '.join(map(str, f)) + ' 0 8')
                        meta.append(c)
        outs = nat.both(cmds)
        for cmd, c, o in zip(cmds, meta, outs):
            for x in o:
                a = x.split(' || ')[0]
                if a.startswith('panic'):
                    return f'{note}: `{cmd}` panics', {'cmd': cmd}
                if not a.startswith('ok'):
                    continue
                entries = [e.strip() for e in a[3:].split(' ; ') if e.strip() and not e.strip().startswith('u=')]
                normals = sorted(int(e.split()[8]) for e in entries if e.startswith('N '))
                skipped = [e for e in entries if e.startswith('S ')]
                want = []
                for off in sorted({so, do}):
                    u = c - off
                    a_ = calref.rule_is_dst(sd, st, ed, et, so, do, u, 'A')
                    b_ = calref.rule_is_dst(sd, st, ed, et, so, do, u, 'B')
                    if a_ != b_:
                        want = None
                        break
                    if (do if a_ else so) == off:
                        want.append(u)
                if want is None:
                    continue
                if normals != sorted(want):
                    return (f'rule zone "{note}": local time {calref.gmtime(c)[:6]}: search returns valid instants {normals}, the instants showing it are {sorted(want)}', {'cmd': cmd})
                if want and skipped:
                    return (f'rule zone "{note}": local time {calref.gmtime(c)[:6]} is shown by the clock at {sorted(want)} yet the search also reports it as skipped ({len(skipped)} gap entr{"y" if len(skipped) == 1 else "ies"})', {'cmd': cmd})
    return None
