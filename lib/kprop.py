"""Shared driver for the Kani-decided properties: run harness lists, replay failures natively through zoneref."""
import re
import common, engb, zoneref
from engb import H


def zone_layout(N):
    l = [('c', 'i64')]
    for i in range(3):
        l += [(f'off{i}', 'i32'), (f'dst{i}', 'bool')]
    for i in range(N):
        l += [(f'tt{i}', 'i64'), (f'ti{i}', 'usize')]
    l += [('n', 'usize'), ('m', 'usize')]
    for i in range(3):
        l += [(f'lt{i}', 'i64'), (f'lc{i}', 'i32')]
    l += [('has_rule', 'bool'), ('roff', 'i32'), ('rdst', 'bool')]
    return l


def decode_zone(vecs, N, with_c=True):
    lay = zone_layout(N)
    if not with_c:
        lay = lay[1:]
    m = engb.decode(vecs, lay)
    n, mm = min(m.get('n', 0), N), min(m.get('m', 0), 3)
    z = zoneref.Zone(tr=[(m[f'tt{i}'], m[f'ti{i}']) for i in range(n)], types=[(m[f'off{i}'], int(m[f'dst{i}'])) for i in range(3)],
                     leaps=[(m[f'lt{i}'], m[f'lc{i}']) for i in range(mm)], rule=('fixed', m.get('roff', 0), int(m.get('rdst', False))) if m.get('has_rule') else None)
    return z, m


def replay_search_failure(ck, B, h, N):
    """decode the concrete playback of a search harness, run the real search natively and judge it against the reference"""
    vecs = B.playback(h)
    if not vecs:
        ck.inconclusive.append(f'{h.name} FAILED ({h.failed_checks[:3]}); concrete playback produced no values')
        return
    z, m = decode_zone(vecs, N)
    if 'leap' not in h.name:
        z.leaps = []   # these harnesses pass an empty leap table whatever the generator produced
    if 'norule' in h.name:
        z.rule = None  # and these a constant `None` rule
    c = m.get('c', 0)
    nat = common.Native()
    why = zoneref.judge_search(nat, z, c)
    if not why:
        # the harness hands the search a buffer holding stale entries of an earlier search: compare the buffer-based list with the
        # allocating one natively under the same condition (unique / earliest / latest / data must ignore stale slots)
        import calref
        if calref.MIN_T <= c <= calref.MAX_T:
            y, mo, d, hh, mi, sec = calref.gmtime(c)[:6]
            for blen in range(0, N + 4):
                cmd = f'c17 {z.cmd()} {y} {mo} {d} {hh} {mi} {sec} 5 {blen}'
                for o in nat.both([cmd])[0]:
                    if (o.startswith('DIFF') or o.startswith('panic')) and not why:
                        why = (f'zone [{z.cmd()}], local time {y}-{mo}-{d} {hh}:{mi}:{sec}, caller buffer of length {blen} holding stale entries: {o}', {'cmd': cmd, 'kind': 'stale-buffer'})
    if why:
        ck.violation(f'{h.name}: {why[0]}', why[1])
    else:
        ck.inconclusive.append(f'{h.name} FAILED ({h.failed_checks[:3]}) but the decoded case (zone {z.cmd()}, civil count {c}) does not reproduce natively: harness/stub contract problem')


def playback_violation(ck, B, h):
    """generic native replay: the harness itself, run natively on the counterexample's concrete values"""
    vecs = B.playback(h)
    if not vecs:
        ck.inconclusive.append(f'{h.name} FAILED ({h.failed_checks[:3]}); concrete playback produced no values')
        return
    ok, msg = engb.native_playback(B, h, vecs)
    if ok:
        ck.violation(f'{h.name} ({h.meaning[:160]}): natively, on the solver\'s counterexample, {msg}', {'kind': 'kani-playback', 'harness': h.name, 'features': h.features, 'unsafe': h.unsafe, 'vecs': vecs})
    else:
        ck.inconclusive.append(f'{h.name} FAILED ({h.failed_checks[:3]}) but the counterexample does not reproduce natively: {msg}')


def replay_playback(ck, case):
    c = case['case']
    B = engb.EngineB(ck)
    h = H(c['harness'], features=c.get('features', 'default'), unsafe=c.get('unsafe', False))
    ok, msg = engb.native_playback(B, h, c['vecs'])
    print('native playback:', ok, msg)
    return 1 if ok else 0


def run_harnesses(ck, hs, on_fail=None):
    B = engb.EngineB(ck)
    B.run(hs)
    for h in hs:
        if h.verdict == 'FAILED':
            if on_fail:
                on_fail(B, h)
            elif h.playback_ok:
                playback_violation(ck, B, h)
            else:
                ck.inconclusive.append(f'{h.name} FAILED: {h.failed_checks[:4]} (no native replay for this harness; unresolved)')
    ck.samples += [{'harness': h.name, 'features': h.features, 'verdict': h.verdict, 'meaning': h.meaning, 'seconds': round(h.secs, 1)} for h in hs]
    return B
