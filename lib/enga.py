#!/usr/bin/env python3
"""Engine A driver layer: MIR dump -> encoding session -> queries -> verdicts (+ translator validation)."""
import os, re, time, subprocess
import common
import mir2smt as M
from mir2smt import *  # noqa: F401,F403  (term constructors used by the property modules)


class EngineA:
    def __init__(s, ck, features='default', append=None, tag=None, unwind=None):
        s.ck = ck
        txt, srcroot, secs = common.mir_dump(features, append=append, tag=tag)
        s.mir_text = txt
        s.srcroot = srcroot
        s.mir = M.Mir(txt, srcroot)
        s.unwind = unwind or {}
        s.queries = []
        s.features = features
        ck.log(f'[engine A] MIR dump ({features}): {len(txt.splitlines())} lines in {secs:.1f}s, {len(s.mir.items)} items')
        s.session()

    def session(s, summaries=None):
        """fresh term store + executor (memo cleared)"""
        M.reset()
        s.ex = M.Exec(s.mir, unwind=s.unwind, summaries=summaries)
        s.obl_mark = 0
        return s.ex

    def concrete(s):
        """executor for concrete (constant-folding) runs: translator validation"""
        return M.Exec(s.mir, unwind=s.unwind)

    # ---- queries
    def claim(s, name, term, expect='unsat', kind='claim', required=True, get=None, meaning='', cap=None, extra_pre=(), pre=None, replay=None, cases=None):
        """`term` is the NEGATED property (a counterexample description); expect unsat. For vacuity twins expect sat."""
        if term is False and expect == 'unsat':
            q = common.Query(name, '', expect, kind, required, cap, 0, meaning)
            q.verdict = 'unsat'
            q.folded = True
            s.ck.queries.append(q)
            return q
        if term is True:
            script, nd = M.emit([], extra_pre=extra_pre, get=get, pre=pre)
        else:
            script, nd = M.emit([term], extra_pre=extra_pre, get=get, pre=pre)
        q = common.Query(name, script, expect, kind, required, cap, max(nd, 1), meaning, cases=cases)
        q.get = get
        q.replay = replay
        s.queries.append(q)
        return q

    def panic_obligations(s, name, since=0, required=True, extra_pre=(), cap=None, get=None, replay=None):
        """one query for the disjunction of all panic/overflow/bounds/unwinding obligations recorded since `since`"""
        obl = M.C.obl[since:]
        live = [(g, c, d, k) for (g, c, d, k) in obl if M.AND(g, c) is not False]
        s.ck.extra.setdefault('panic_obligations', {})[name] = {'total': len(obl), 'constant_folded_false': len(obl) - len(live),
                                                                'kinds': {k: sum(1 for o in obl if o[3] == k) for k in sorted({o[3] for o in obl})}}
        term = M.OR(*[M.AND(g, c) for (g, c, d, k) in live])
        q = s.claim(name, term, kind='panic-obligations', required=required, extra_pre=extra_pre, cap=cap, get=get,
                    meaning=f'some overflow/bounds/division/cast/unreachable/unwinding site among {len(obl)} is reachable', replay=replay)
        q.obl = live
        return q

    def decide(s, cap=None, z3cap=None, grace=None):
        ck = s.ck
        cap = cap or (120 if ck.tier == 'quick' else 1800)
        grace = (2 if ck.tier == 'quick' else 20) if grace is None else grace
        qs = s.queries
        s.queries = []
        common.run_queries(qs, cap, grace, log=ck.log)
        ck.absorb(qs)
        for f in s.ex.encoded:
            if f not in ck.functions:
                ck.functions.append(f)
        return qs

    def settle(s, qs):
        """turn verdicts into check outcomes: SAT claims are replayed natively before anything is reported"""
        ck = s.ck
        for q in qs:
            if q.kind == 'vacuity' and q.verdict == 'unsat':
                ck.inconclusive.append(f'vacuity twin {q.name} is unsatisfiable: the claims it guards are vacuous (assumptions inconsistent or code unreachable)')
            if q.kind != 'vacuity' and q.verdict == 'sat' and q.expect == 'unsat':
                r = None
                if getattr(q, 'replay', None):
                    r = q.replay(q.model)
                if r:
                    ck.violation(f'{q.name}: {r[0]}', r[1])
                else:
                    detail = ''
                    if q.kind == 'panic-obligations':
                        detail = ' reachable per solver: ' + '; '.join(d for d, k, mm in s.bisect_obligations(q)[:4])
                    (ck.inconclusive if q.required else ck.not_covered).append(f'{q.name}: solver model {q.model} does not reproduce on the native build (encoding or oracle problem){detail}')
        ck.samples += [{'query': q.name, 'meaning': q.meaning, 'verdict': q.verdict, 'seconds': round(q.secs, 2), 'definitions': q.ndefs} for q in qs if q.kind == 'claim' and q.ndefs > 0][:6]

    def bisect_obligations(s, q, cap=60):
        """which obligation of a SAT panic query is reachable (only called on failure)"""
        res = []
        for (g, c, d, k) in q.obl:
            script, nd = M.emit([M.AND(g, c)], get=q.get)
            v, out, dt, by = common.portfolio(script, cap, 0, 'bisect')
            if v == 'sat':
                res.append((d, k, common.parse_model(out)))
        return res


def evalv(v):
    """value from a concrete (folded) run -> plain python"""
    return v


def pinned_eval(inputs, outputs, cap=60):
    """solver-side evaluation of the current encoding at concrete inputs: {name: int} -> values of output terms"""
    pins = [M.CMP('=', k, v) if not isinstance(v, bool) else (k if v else M.NOT(k)) for k, v in inputs.items()]
    outs = [o for o in outputs if isinstance(o, str)]
    script, _ = M.emit(pins, get=outs)
    v, out, dt, by = common.portfolio(script, cap, 0, 'pinned')
    if v != 'sat':
        raise common.Inconclusive(f'pinned evaluation not sat ({v}): encoder or assumptions inconsistent at {inputs}')
    m = common.parse_model(out)
    return [m.get(o) if isinstance(o, str) else o for o in outputs]
