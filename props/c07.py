"""C07 - no panic, overflow or abort: every failure on any input is a returned error.
Engine A: every overflow / bounds / division / cast / unreachable / unwinding site of the arithmetic kernels is an obligation decided for ALL inputs.
Engine B: Kani's default checks (panics, overflow as in the dev profile, out-of-bounds, unwinding assertions) on the table/constructor/parser harnesses."""
import common, contracts, kprop
import engb
from enga import *
from calspec import *
from rulespec import *

I32 = rng('i32')


def run(ck):
    quick = ck.tier == 'quick'
    nat = common.Native()
    A = EngineA(ck, unwind={'from_timespec': 12, 'binary_search_i64': 5, 'new': 8})
    ck.bounds += ['Engine A: no bound beyond the machine types (loops: month loop 12, binary search 5, designation copy 8, each with an unwinding obligation)',
                  'Engine B: the bounds of the harnesses listed (tables <= 4, lists <= 3, byte strings of the unit lengths); allocation: every count that sizes a Vec::with_capacity is shown <= the number of bytes present (c08_layout_*)',
                  'outside: raw byte strings longer than the unit sizes through the whole parsers; peak heap in absolute terms; 32-bit usize targets']
    ck.trusted += ['rustc MIR + encoder + cvc5/z3', 'Kani/CBMC default checks model the dev profile; Engine A proves no intermediate leaves its type, so release (wrapping) and dev (checked) builds compute the same values']
    allq = []

    def flush(ex):
        nonlocal allq
        allq += A.queries
        A.queries = []
        for f in ex.encoded:
            if f not in ck.functions:
                ck.functions.append(f)

    def rp_none(m):
        return None
    # ---- datetime kernels
    ex = A.session()
    t, ns = I('t', 'i64'), I('ns', 'u32')
    y, mo, d, h, mi, s = I('y', 'i32'), I('mo', 'u8'), I('d', 'u8'), I('h', 'u8'), I('mi', 'u8'), I('s', 'u8')
    off = I('off', 'i32')
    assume(CMP('>', off, I32[0]))
    lt = {'ut_offset': off, 'is_dst': B('isdst'), 'time_zone_designation': {'$d': 0, '$v': {}}}
    g = ex.call('UtcDateTime::from_timespec', [t, ns])
    gok = CMP('=', g['$d'], 0)
    gf = g['$v']['Ok'][0]
    for getter in ('UtcDateTime::week_day', 'UtcDateTime::year_day', 'UtcDateTime::unix_time', 'UtcDateTime::total_nanoseconds'):
        ex.call(getter, [gf], g=gok)
    u = ex.call('UtcDateTime::new', [y, mo, d, h, mi, s, ns])
    uok = CMP('=', u['$d'], 0)
    for getter in ('UtcDateTime::week_day', 'UtcDateTime::year_day', 'UtcDateTime::unix_time', 'UtcDateTime::total_nanoseconds'):
        ex.call(getter, [u['$v']['Ok'][0]], g=uok)
    dn = ex.call('DateTime::new', [y, mo, d, h, mi, s, ns, lt])
    dok = CMP('=', dn['$d'], 0)
    for getter in ('DateTime::week_day', 'DateTime::year_day', 'DateTime::total_nanoseconds'):
        ex.call(getter, [dn['$v']['Ok'][0]], g=dok)
    dl = ex.call('DateTime::from_timespec_and_local', [t, ns, lt])
    n = I('n', 'i128')
    ex.call('UtcDateTime::from_total_nanoseconds', [n])
    ex.call('DateTime::from_total_nanoseconds_and_local', [n, lt])

    def rp_dt(m):
        cmds = [f'gmtime {m.get("t", 0)} {m.get("ns", 0)}', f'timegm {m.get("y", 0)} {m.get("mo", 1)} {m.get("d", 1)} {m.get("h", 0)} {m.get("mi", 0)} {m.get("s", 0)} {m.get("ns", 0)}',
                f'dt_new {m.get("y", 0)} {m.get("mo", 1)} {m.get("d", 1)} {m.get("h", 0)} {m.get("mi", 0)} {m.get("s", 0)} {m.get("ns", 0)} {m.get("off", 0)} 0 -', f'dt_local {m.get("t", 0)} {m.get("ns", 0)} {m.get("off", 0)} 0 -',
                f'utc_total {m.get("n", 0)}', f'dt_total_local {m.get("n", 0)} {m.get("off", 0)} 0 -']
        for c, o in zip(cmds, nat.both(cmds)):
            if any(x.startswith('panic') for x in o):
                return f'`{c}` panics natively: {o}', {'cmd': c}
    A.panic_obligations('datetime:from_timespec,new,getters,DateTime::new,from_timespec_and_local,from_total_nanoseconds*', get=[t, ns, y, mo, d, h, mi, s, off, n], replay=rp_dt)
    flush(ex)
    # ---- rule days, all years
    for tag in range(3):
        ex = A.session()
        day = sym_ruleday('r', tag)
        yy = I('y', 'i32')
        dt = I('dt')
        assume(CMP('<', -(WEEK + 26 * H), dt), CMP('<', dt, WEEK + 26 * H))
        ex.call('RuleDay::unix_time', [day, yy, dt])

        def rp_rd(m, tag=tag):
            c = f'ruleday {day_cmd(m, "r", tag)} {m.get("y", 0)} {m.get("dt", 0)}'
            o = nat.both([c])[0]
            if any(x.startswith('panic') for x in o):
                return f'`{c}` panics natively', {'cmd': c}
        A.panic_obligations(f'rule_day:{NAMES[tag]}:unix_time_all_years', get=day_vars('r') + [yy, dt], replay=rp_rd)
        flush(ex)
    # ---- rule constructor (incl. unreachable!()) for all 9 notation pairs, arbitrary i32 times/offsets
    for ts in range(3):
        for te in range(3):
            ex = A.session()
            std, dst = sym_ltt('std', window=False), sym_ltt('dst', window=False)
            ds, de = sym_ruleday('s', ts), sym_ruleday('e', te)
            st, et = I('st', 'i32'), I('et', 'i32')
            ex.call('AlternateTime::new', [std, dst, ds, st, de, et])

            def rp_an(m, ts=ts, te=te):
                c = f'alt_new {alt_cmd(m, ts, te)}'
                o = nat.both([c])[0]
                if any(x.startswith('panic') for x in o):
                    return f'`{c}` panics natively', {'cmd': c}
            A.panic_obligations(f'rule_ctor:{NAMES[ts]}|{NAMES[te]}', get=['stdoff', 'dstoff', 'st', 'et'] + day_vars('s') + day_vars('e'), replay=rp_an)
            flush(ex)
    # ---- the rule lookup at every instant (calendar abstraction as in C04 layer 3), 3 pairs in quick, 9 in thorough
    pairs = [(0, 1), (2, 2), (1, 2)] if quick else [(a, b) for a in range(3) for b in range(3)]
    for (ts, te) in pairs:
        cal = contracts.CalAbs()
        Yv = []

        def sum_from_timespec(args, g_, cal=cal, Yv=Yv):
            t_, ns_ = args
            Y = I('Y', 'i32')
            Yv.append(Y)
            cal.link(Y)
            okr = AND(CMP('<=', MIN_T, t_), CMP('<=', t_, MAX_T))
            assume(IMP(okr, AND(CMP('<=', ARI('*', cal.J(Y), DAY), t_), CMP('<', t_, ARI('*', cal.J(ARI('+', Y, 1)), DAY)))))
            return {'$d': ITE(okr, 0, 1, 'Int'), '$v': {'Ok': [{'year': Y, 'month': I('mo_'), 'month_day': I('md_'), 'hour': I('h_'), 'minute': I('mi_'), 'second': I('se_'), 'nanoseconds': ns_}],
                                                        'Err': [{'$d': A.mir.enums['TzError']['OutOfRange'], '$v': {}}]}}
        summ = cal.summaries()
        summ['UtcDateTime::from_timespec'] = sum_from_timespec
        ex = A.session(summaries=summ)
        cal.__init__()
        std, dst = sym_ltt('std'), sym_ltt('dst')
        ds, de = sym_ruleday('s', ts), sym_ruleday('e', te)
        st, et = I('st'), I('et')
        assume(CMP('<', -WEEK, st), CMP('<', st, WEEK), CMP('<', -WEEK, et), CMP('<', et, WEEK))
        tt = I('t', 'i64')
        ex.call('AlternateTime::find_local_time_type', [{'std': std, 'dst': dst, 'dst_start': ds, 'dst_start_time': st, 'dst_end': de, 'dst_end_time': et}, tt])
        for k in (-1, 0, 1):
            cal.link(ARI('+', Yv[0], k))
        cases = None
        if ts == 2 and te == 2:
            cases = [(f'sm={a}', f'(assert (= sm {a}))') for a in range(1, 13)]
        def rp_lookup(m, ts=ts, te=te):
            import c04
            return c04.native_year_guard_violation(nat, m, ts, te)
        q = A.panic_obligations(f'rule_lookup:{NAMES[ts]}|{NAMES[te]}:all_instants(abstract calendar)', get=['stdoff', 'dstoff', 'st', 'et', 't'] + day_vars('s') + day_vars('e'), replay=rp_lookup, cap=(300 if quick else 1800))
        q.cases = cases
        flush(ex)
    ex = A.session()
    contracts.discharge(A, ex)
    A.panic_obligations('calendar_kernel:days_since_unix_epoch,is_leap_year')
    flush(ex)
    # ---- designations, local time types, rule-day constructors, formatting
    ex = A.session()
    bs = [I(f'b{i}', 'u8') for i in range(9)]
    ln = I('len')
    assume(CMP('<=', 0, ln), CMP('<=', ln, 9))
    r = ex.call('TzAsciiStr::new', [{'$a': bs, '$len': ln}])
    ex.call('TzAsciiStr::as_bytes', [r['$v']['Ok'][0]], g=CMP('=', r['$d'], 0))
    ex.call('LocalTimeType::new', [I('o2', 'i32'), B('f2'), {'$d': 1, '$v': {'Some': [{'$a': bs, '$len': ln}]}}])
    ex.call('Julian1WithoutLeap::new', [I('j1', 'u16')])
    ex.call('Julian0WithLeap::new', [I('j0', 'u16')])
    ex.call('MonthWeekDay::new', [I('mm', 'u8'), I('mw', 'u8'), I('md', 'u8')])
    ex.call('format_date_time', [{'$formatter': True}, I('fy', 'i32'), I('fmo', 'u8'), I('fd', 'u8'), I('fh', 'u8'), I('fmi', 'u8'), I('fs', 'u8'), I('fns', 'u32'), I('foff', 'i32')])
    A.panic_obligations('designation,LocalTimeType::new,rule-day constructors,format_date_time', replay=rp_none)
    flush(ex)
    A.queries = allq
    qs = A.decide(cap=300 if quick else 1800)
    A.settle(qs)
    # ---- Engine B: default checks on the slice/loop code and the parsers (arbitrary bytes of the unit lengths)
    hs = [engb.H('c03_lookup_n4', cap=1200, playback=True, meaning='TimeZoneRef::new + find_local_time_type at every i64 instant, tables <= 4 with arbitrary i64 times / indices: no panic, OOB, overflow'),
          engb.H('c13_ref_fixed_or_none', cap=1500, playback=True, meaning='zone constructor on arbitrary lists (<=3 each) incl. i64::MIN/MAX times and saturating leap arithmetic'),
          engb.H('c12_with_deletions', cap=1500, playback=True, meaning='both leap conversions at every i64 instant/count: overflow is Err(OutOfRange)'),
          engb.H('c08_header', cap=600, playback=True, meaning='parse_header on arbitrary bytes'),
          engb.H('c08_layout_v2_blocks', cap=900, playback=True, meaning='read_data_blocks on arbitrary u32 counts: no overflow (64-bit usize), counts <= bytes present before any with_capacity'),
          engb.H('c08_records_min_v2', cap=1500, playback=True, meaning='record decoding on arbitrary bytes of the minimal shape'),
          engb.H('c08_footer_framing', cap=1500, meaning='parse_footer on arbitrary <=6 bytes (real UTF-8 validation)'),
          engb.H('c09_offset_len5', cap=1500, unsafe=True, playback=True, meaning='parse_offset on arbitrary ASCII bytes'),
          engb.H('c09_rule_day_len6', cap=1800, unsafe=True, playback=True, meaning='parse_rule_day on arbitrary ASCII bytes'),
          engb.H('c09_designation_len7', cap=900, unsafe=True, playback=True, meaning='parse_time_zone_designation on arbitrary ASCII bytes'),
          engb.H('c09_parse_int_real_utf8_len3', cap=900, unsafe=True, playback=True, meaning='parse_int on arbitrary (also non-UTF-8) bytes'),
          engb.H('c05_table_n1', cap=1500, meaning='find_n over full i64 / i32 ranges (table <= 1 + fixed rule): errors are values')]
    if not quick:
        hs += [engb.H('c05_table_n2', cap=3600, meaning='find_n, tables <= 2'), engb.H('c09_composition', cap=2400, unsafe=True, meaning='parse_posix_tz on arbitrary <=6 bytes with abstracted sub-parsers'),
               engb.H('c08_file_composition', cap=3000, meaning='parse_tz_file on arbitrary <=112-byte files with record decoding abstracted')]
    import c08
    kprop.run_harnesses(ck, hs, on_fail=lambda B, h: (c08.footer_replay(ck, B, h) if h.name == 'c08_footer_framing' else kprop.playback_violation(ck, B, h) if h.playback_ok else ck.inconclusive.append(f'{h.name} FAILED: {h.failed_checks[:4]} (no native replay for this harness; unresolved)')))
    ck.explanation = ('Panic-freedom is decided as proof obligations: Engine A turns every `assert(!overflow)`, bounds check, division check, lossy cast, `unreachable` and loop bound of the overflow-checks=on MIR into a '
                      'query over all inputs; Engine B runs CBMC\'s built-in checks with unwinding assertions on the table, constructor and parser harnesses.')


def replay(ck, case):
    c = case['case']
    if c.get('kind') == 'kani-playback':
        return kprop.replay_playback(ck, case)
    if c.get('kind') == 'footer':
        import c08
        return c08.replay(ck, case)
    nat = common.Native()
    o = nat.both([c['cmd']])[0]
    print(o)
    return 1 if any(x.startswith('panic') for x in o) else 0
