"""C05 - mktime: valid search results are exactly the instants showing that local time.  Engine B (Kani) with S_civil/S_pack."""
import re
import common, engb, kprop, zoneref
from engb import H

COMMON_BOUNDS = ['table zones with <= 2 (quick) / <= 3 (thorough) transitions at arbitrary i64 times, 3 local time types with arbitrary i32 offsets, trailing rule none or Fixed(any), leap table empty or 1 record (variant); searched civil second count arbitrary in [MIN, MAX+1] (second 60 included)',
                 'buffer 8 (> maximal number of results, asserted exhaustive); DST-rule zones: see rule-zone harnesses (thorough) and C04; the Vec instantiation is tied to this one by C17']
STUBS = ['(thorough, *_rule_abstract) S_ruleday: RuleDay::unix_time := abstract yearly instants obeying K1 (locality) and K2 (364..371 days apart); S_year: UtcDateTime::from_timespec := year whose 1 January brackets the instant (K3), years 365/366 days (K4): all discharged by C04 (L1, contracts_K1_K2_*, contract:K3_*, contract:year_step)',
         'S_civil: datetime::unix_time := one symbolic civil second count c (discharged by C02: unix_time is that count, injective on valid fields)',
         'S_pack: UtcDateTime::from_timespec := range gate + injective packing of t (discharged by C01)',
         'S_unreach: RuleDay::unix_time, AlternateTime::find_local_time_type := assert!(false)']


def run(ck):
    quick = ck.tier == 'quick'
    ck.bounds += COMMON_BOUNDS
    ck.stubs += STUBS
    ck.trusted += ['Kani 0.68 / CBMC 6.11 (dev profile)', 'reduction: a clock shows fields F at u iff u + offset(u) = unix_time(F) (C01 + C02)']
    hs = [H('c05_table_n2', cap=1800, meaning='n<=2 (+fixed rule): soundness (each valid result round-trips through the forward lookup with the same type and shows the searched fields), completeness for an arbitrary instant, no duplicates, ascending, unique() iff single valid result')]
    hs.append(H('c05_table_leap1_norule_n2', cap=(1200 if quick else 7200), meaning='n<=2 with one leap-second record, no trailing rule (transition times are counts on the leap-second scale; known-finding role F3 excluded)'))
    if quick:
        pass
    else:
        hs += [H('c05_table_n3', cap=7200, meaning='n<=3'), H('c05_table_leap1_n2', cap=7200, required=False, meaning='n<=2 with one leap-second record and a Fixed trailing rule'), H('c05_table_n1', cap=2400, meaning='n<=1')]
    # the search's DST-rule arm in the quick tier: optional there (about 10 minutes on an idle machine; a timeout is recorded as
    # "not covered this run", a FAILED verdict is replayed and reported like any other)
    hs.append(H('c05_rulespec_search', cap=(700 if quick else 5400), required=False, meaning='DST-rule zones, all rules, searched year starting at a fixed instant (narrow): the real search over three abstract years of rule-day instants (contracts K1/K2/K4 from C04) against the C04 specification of the lookup (northern [S(k),E(k)), southern [S(k),E(k+1))); stale buffer; role F2 excluded'))
    if not quick:
        hs.append(H('c05_rulespec_wide_search', cap=9000, required=False, meaning='same with the year anywhere in the supported range'))
        hs.append(H('c05_rule_abstract', cap=9000, required=False, meaning='DST-rule zones, ALL years and ALL rules: real search and real forward lookup over abstract rule-day instants constrained by the contracts K1-K4 (discharged in C04), interleaving pattern assumed, known-finding role F2 (tie years) excluded: same assertions as the table harnesses'))

    def on_fail(B, h):
        if 'rule_abstract' in h.name or 'rulespec' in h.name:
            import ruleref
            r = ruleref.judge(common.Native())
            if r:
                ck.violation(f'{h.name}: {r[0]}', dict(r[1], kind='rule-corpus'))
            else:
                ck.inconclusive.append(f'{h.name} FAILED ({h.failed_checks[:3]}); no rule of the replay corpus reproduces a deviation natively (abstract counterexample not concretised)')
        else:
            kprop.replay_search_failure(ck, B, h, int(re.search(r'_n(\d)', h.name).group(1)))
    kprop.run_harnesses(ck, hs, on_fail=on_fail)
    ck.functions += ['datetime::find::find_date_time', 'DateTime::find_n', 'FoundDateTimeListRefMut::{push,data,count,is_exhaustive,unique}', 'TimeZoneRef::find_local_time_type', 'TimeZoneRef::unix_time_to_unix_leap_time', 'TimeZoneRef::unix_leap_time_to_unix_time', 'DateTime::from_timespec_and_local']
    ck.explanation = 'Search and forward lookup are two different algorithms; CBMC decides that they agree for every zone up to the bound, every civil time and every instant (relation over all zones x all local times).'


def replay(ck, case):
    nat = common.Native()
    c = case['case']
    if c.get('kind') == 'rule-corpus':
        import ruleref
        r = ruleref.judge(nat)
        print('violates:', r[0] if r else None)
        return 1 if r else 0
    if c.get('kind') == 'stale-buffer':
        o = nat.both([c['cmd']])[0]
        print(o)
        return 1 if any(x.startswith(('DIFF', 'panic')) for x in o) else 0
    z = zoneref.Zone(**{k: ([tuple(x) for x in v] if isinstance(v, list) else (tuple(v) if v else None)) for k, v in c['zone'].items()}) if 'zone' in c else None
    if z is None:
        print(nat.both([c['cmd']]))
        return 1
    why = zoneref.judge_search(nat, z, c['c'])
    print('violates:', why[0] if why else None)
    return 1 if why else 0
