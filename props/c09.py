"""C09 - POSIX TZ string decoding follows the grammar, its defaults and sign conventions.  Engine B: sub-parser contracts + composition."""
import common, kprop
from engb import H

QUICK = [
    ('c09_offset_len5', 1500, True, True, 'parse_offset on <=5 arbitrary ASCII bytes vs a reference recogniser: same accept/reject, value (sign applied to the whole h:m:s, hour <= 24), bytes consumed (maximal munch)'),
    ('c09_rule_time_len5', 1500, True, True, 'parse_rule_time (POSIX: unsigned, hour <= 24) on <=5 bytes'),
    ('c09_rule_time_extended_len5', 1500, True, True, 'parse_rule_time_extended (RFC 8536 v3: signed, |hour| <= 167) on <=5 bytes'),
    ('c09_rule_day_len6', 1800, True, True, 'parse_rule_day on <=6 bytes: Jn 1..365, n 0..365, Mm.w.d with 1..12 / 1..5 / 0..6'),
    ('c09_designation_len7', 900, False, True, 'parse_time_zone_designation on <=7 bytes: alphabetic run, or quoted <...>'),
    ('c09_parse_int_real_utf8_len3', 900, False, True, 'parse_int::<i32> with the REAL UTF-8 validation on <=3 arbitrary bytes'),
    ('c09_rule_block', 1800, True, False, 'parse_rule_block with the two time parsers abstracted: default 02:00:00 when no "/", the extension flag selects the parser'),
    ('c09_block_real_time_posix_len5', 1800, True, True, 'parse_rule_block on "5/" + <=5 arbitrary ASCII bytes, extensions off, REAL time parser behind it (named only through parse_rule_block: robust to refactors of the private time parsers): unsigned, hour <= 24'),
    ('c09_block_real_time_ext_len5', 1800, True, True, 'same with extensions on: optional sign, |hour| <= 167'),
    ('c09_composition', 2400, False, False, 'parse_posix_tz on <=6 arbitrary bytes with name / offset / rule-block parsers abstracted: grammar replayed on the call log; UTC offset = -offset, missing DST offset = std - 3600, separators, RemainingData, MissingDstStartEndRules, AlternateTime::new of the logged values'),
]
THOROUGH = [
    ('c09_offset_len9', 7200, True, True, 'parse_offset on <=9 bytes (hh:mm:ss with sign)'),
    ('c09_rule_time_extended_len10', 7200, True, True, 'extended rule time on <=10 bytes (-167:59:59)'),
    ('c09_rule_day_len8', 7200, True, True, 'parse_rule_day on <=8 bytes (M12.5.6)'),
]


def run(ck):
    quick = ck.tier == 'quick'
    ck.bounds += ['sub-parsers: arbitrary ASCII content up to the longest sentence of each (offset 9 bytes "-24:59:59", extended rule time 10 bytes "-167:59:59", rule day 8 bytes, POSIX rule time 5, name 7); composition: <= 6 arbitrary bytes with abstracted callees (positions, not contents, matter)',
                  'outside: non-ASCII bytes beyond the 3-byte real-UTF-8 harness; 10-digit overflow of parse::<i32>; the glue "units = reference and composition = reference composition => whole = reference" is a paper step']
    ck.stubs += ['S_utf8: core::str::from_utf8 := assert ASCII + from_utf8_unchecked (overlay built with deny(unsafe_code) instead of forbid; discharged for <=3 arbitrary bytes by c09_parse_int_real_utf8_len3)',
                 'S_sub(parse_rule_time / parse_rule_time_extended) in c09_rule_block; S_sub(parse_time_zone_designation, parse_offset, parse_rule_block) in c09_composition: consume a nondeterministic number of bytes, return a value in the proven range or an error, log the call']
    ck.trusted += ['Kani 0.68 / CBMC 6.11']
    rows = QUICK + THOROUGH   # the full-length variants cost 1-4 min: part of the quick tier too
    hs = [H(n, cap=c, required=True, unsafe=True, playback=pb, meaning=m) for n, c, u, pb, m in rows]
    kprop.run_harnesses(ck, hs)
    ck.functions += ['parse::tz_string::{parse_int, parse_hhmmss, parse_signed_hhmmss, parse_offset, parse_rule_time, parse_rule_time_extended, parse_rule_day, parse_rule_block, parse_time_zone_designation, parse_posix_tz}',
                     'parse::utils::{read_exact, read_while, read_until, read_tag, read_optional_tag}', 'Julian1WithoutLeap::new', 'Julian0WithLeap::new', 'MonthWeekDay::new', 'AlternateTime::new', 'LocalTimeType::new']
    ck.explanation = 'Whole-string harnesses do not finish (DESIGN.md C09); each sub-parser is decided on raw symbolic bytes against a reference recogniser written from the grammar, and the top-level function with abstracted callees against a replay of the grammar on the call log.'


def replay(ck, case):
    return kprop.replay_playback(ck, case)
