"""C06 - mktime: skipped local times reported with their gap; results in ascending order.  Engine B (Kani)."""
import re
import common, engb, kprop, zoneref
from engb import H
import c05


def run(ck):
    quick = ck.tier == 'quick'
    ck.bounds += c05.COMMON_BOUNDS
    ck.stubs += c05.STUBS
    ck.trusted += ['Kani 0.68 / CBMC 6.11 (dev profile)', 'reduction to civil second counts (C01 + C02); transition instants in UTC via unix_leap_time_to_unix_time (C12)']
    hs = [H('c06_table_n2', cap=1800, meaning='n<=2 (+fixed rule): a Skipped entry is a real forward jump at T with T+a <= local < T+b and lookup(T-1)/lookup(T) give the two types; every table gap containing the local time is reported; strictly ascending; earliest/latest are the extremes')]
    hs.append(H('c06_table_leap1_norule_n2', cap=(1200 if quick else 7200), meaning='n<=2 with one leap-second record, no trailing rule (transition times are counts on the leap-second scale; known-finding role F3 excluded)'))
    if quick:
        pass
    else:
        hs += [H('c06_table_n3', cap=7200, meaning='n<=3'), H('c06_table_leap1_n2', cap=7200, required=False, meaning='n<=2 with one leap-second record and a Fixed trailing rule'), H('c06_table_n1', cap=2400, meaning='n<=1')]
    # the search's DST-rule arm against the C04 specification: 25 min under load (15 idle), hence thorough only for C06 (C05's twin runs
    # in the quick tier as an optional, capped item)
    if not quick:
        hs.append(H('c06_rulespec_search', cap=5400, required=False, meaning='DST-rule zones, all rules, searched year starting at a fixed instant (narrow): the real search over three abstract years of rule-day instants (contracts K1/K2/K4 from C04) against the C04 specification of the lookup: reported gaps are real jumps, real jumps are reported, order, earliest/latest; stale buffer; role F2 excluded'))
    if not quick:
        hs.append(H('c06_rulespec_wide_search', cap=9000, required=False, meaning='same with the year anywhere in the supported range'))
        hs.append(H('c06_rule_abstract', cap=9000, required=False, meaning='DST-rule zones, ALL years and ALL rules: real search and real forward lookup over abstract rule-day instants constrained by the contracts K1-K4 (discharged in C04), interleaving pattern assumed, known-finding role F2 (tie years) excluded: same assertions as the table harnesses'))

    def on_fail(B, h):
        if 'rule_abstract' in h.name or 'rulespec' in h.name:
            import ruleref
            r = ruleref.judge(common.Native())
            if r:
                ck.violation(f'{h.name}: {r[0]}', dict(r[1], kind='rule-corpus'))
            else:
                ck.inconclusive.append(f'{h.name} FAILED ({h.failed_checks[:3]}); no rule of the replay corpus reproduces a deviation natively (abstract counterexample not concretised)')
        else:
            kprop.replay_search_failure(ck, B, h, int(re.search(r'_n(\d)', h.name).group(1)))
    kprop.run_harnesses(ck, hs, on_fail=on_fail)
    f3_known_finding(ck)
    ck.functions += ['datetime::find::find_date_time', 'DateTime::find_n', 'FoundDateTimeListRefMut::{earliest,latest,data}', 'TimeZoneRef::find_local_time_type', 'TimeZoneRef::unix_leap_time_to_unix_time', 'DateTime::from_timespec_and_local']
    ck.explanation = 'Gap detection (two comparisons per transition in leap-count space) and push order are decided for every zone up to the bound and every civil time.'


def f3_known_finding(ck):
    """F3 is excluded from the leap-variant harnesses by assumption (role two-transitions-at-one-utc-instant); the recorded example is
    replayed natively on every run and reported as KNOWN-FINDING while the real code still misbehaves on it"""
    ent = [f for f in common.load_known().get('findings', []) if f.get('property') == 'C06' and f.get('id') == 'F3']
    if not ent:
        return
    e = ent[0]
    nat = common.Native()
    y, mo, d, h, mi, s = e['local']
    out = nat.both([f"find {e['zone']} {y} {mo} {d} {h} {mi} {s} 0 8"])[0]
    for o in out:
        a = o.split(' || ')[0]
        for ent_ in [x.strip() for x in a[3:].split(' ; ')]:
            if ent_.startswith('S '):
                before, after = ent_[2:].split(' / ')
                t = int(after.split()[7])
                after_off = int(after.split()[8])
                lk = nat.both([f"lookup {e['zone']} {t}"])[0][0]
                if lk.startswith('ok') and int(lk.split()[1]) != after_off:
                    ck.known_hits.append(f"F3 role={e['role']}: example zone still reports a gap whose after-clock ({after_off}) is not the clock in force at its instant ({lk.split()[1]})")
                    return


replay = c05.replay
