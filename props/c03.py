"""C03 - localtime (table): type at an instant is that of the latest transition <= it.  Engine B (Kani)."""
import common, engb
from engb import H


def run(ck):
    B = engb.EngineB(ck)
    quick = ck.tier == 'quick'
    ck.bounds += ['binary-search helper and lookup: every table length 0..64 with fixed increasing times (symbolic key); symbolic contents: tables of <= 6 (quick) / <= 8, optionally 12 (thorough) transitions: all lengths, hence both parities and every mid-point pattern of the binary search to depth 3; 3 local time types; trailing rule none or Fixed(any); leap variant: <= 4 (6) transitions with <= 3 leap records',
                  'arbitrary i64 transition times and instants, arbitrary i32 offsets; zones filtered by the real TimeZoneRef::new; longer tables are outside the claim']
    ck.trusted += ['Kani 0.68 / CBMC 6.11 (dev profile)']
    ck.stubs += ['S_unreach: RuleDay::unix_time / AlternateTime::find_local_time_type := assert!(false) (no Alternate rule in these harnesses; DST rules are C04)',
                 'S_pack in c03_plumb: UtcDateTime::from_timespec := range gate + injective packing of t (its real meaning is C01)']
    hs = [H('c03_lookup_n6', cap=1200, playback=True, meaning='lookup == linear-scan reference (ptr-equal local time type), type 0 before the first transition, rule / NoAvailableLocalTimeType at or after the last; n<=6, no leap seconds'),
          H('c03_lookup_leap_n4', cap=1500, playback=True, meaning='same with <=3 leap records: "at or before" is judged at the UTC instant each transition count denotes (declarative C12 definition); n<=4'),
          H('c03_plumb', cap=1200, meaning='DateTime::from_timespec = lookup composed with from_timespec_and_local: fields are those of t+offset, unix_time=t, ns and type copied, OutOfRange iff t+offset leaves the range')]
    hs += [H('c03_binary_search_transitions_every_length_upto_64', cap=600, playback=True, meaning='the shared binary-search helper on a fixed strictly increasing table of EVERY length 0..64 and every key before / at / between / after the entries: Ok(index) or Err(insertion point) (comparison-based search: index arithmetic depends only on comparison outcomes, exhausted by the symbolic key)'),
           H('c03_lookup_every_length_upto_64_concrete_table', cap=600, playback=True, meaning='find_local_time_type on zones with 0..64 transitions (fixed increasing times, no rule): NoAvailableLocalTimeType exactly at/after the last transition, no out-of-bounds probe for any length')]
    if not quick:
        hs += [H('c03_lookup_n8', cap=3600, playback=True, meaning='n<=8'), H('c03_lookup_n12', cap=7200, playback=True, required=False, meaning='n<=12 (binary search depth 4)'),
               H('c03_lookup_leap_n6', cap=7200, playback=True, required=False, meaning='n<=6 with <=3 leap records')]
    B.run(hs)
    import kprop
    for h in hs:
        if h.verdict == 'FAILED':
            if h.playback_ok:
                kprop.playback_violation(ck, B, h)
            else:
                replay_plumb(ck, B, h)
    ck.samples += [{'harness': h.name, 'verdict': h.verdict, 'meaning': h.meaning, 'seconds': round(h.secs, 1)} for h in hs]
    ck.functions += ['TimeZoneRef::find_local_time_type', 'binary_search_transitions', 'TimeZoneRef::unix_time_to_unix_leap_time', 'TimeZoneRef::new/check_inputs', 'TransitionRule::find_local_time_type', 'DateTime::from_timespec', 'DateTime::from_timespec_and_local']
    ck.explanation = 'CBMC decides, for every table up to the bound accepted by the real constructor and every i64 instant, that the binary-search lookup returns the reference scan\'s type (by pointer identity).'


def layout(N):
    l = []
    for i in range(3):
        l += [(f'off{i}', 'i32'), (f'dst{i}', 'bool')]
    for i in range(N):
        l += [(f'tt{i}', 'i64'), (f'ti{i}', 'usize')]
    l += [('n', 'usize'), ('m', 'usize')]
    for i in range(3):
        l += [(f'lt{i}', 'i64'), (f'lc{i}', 'i32')]
    l += [('has_rule', 'bool'), ('roff', 'i32'), ('rdst', 'bool'), ('t', 'i64')]
    return l


def spec_corr(ls, l):
    c = 0
    for (t, k) in ls:
        if t < l or (k < c and t == l):
            c = k
        else:
            break
    return c


def replay_failed(ck, B, h):
    import re
    mN = re.search(r'_n(\d)', h.name)
    if not mN:
        ck.inconclusive.append(f'{h.name} FAILED: {h.failed_checks[:3]} (no decoder for this harness; treat as unresolved)')
        return
    N = int(mN.group(1))
    vecs = B.playback(h)
    m = engb.decode(vecs, layout(N))
    if 'has_rule' in m and not m['has_rule']:
        # the Fixed rule's any() calls do not happen: t follows directly
        m2 = engb.decode(vecs, layout(N)[:-3] + [('t', 'i64')])
        m['t'] = m2.get('t', m.get('t', 0))
    n, mm = m.get('n', 0), m.get('m', 0)
    tr = [(m[f'tt{i}'], m[f'ti{i}']) for i in range(n)]
    ls = [(m[f'lt{i}'], m[f'lc{i}']) for i in range(mm)]
    types = [(m[f'off{i}'], int(m[f'dst{i}'])) for i in range(3)]
    rule = f'fixed {m["roff"]} {int(m["rdst"])} -' if m.get('has_rule') else 'none'
    z = f'T {n} ' + ' '.join(f'{a} {b}' for a, b in tr) + ' L 3 ' + ' '.join(f'{o} {d} -' for o, d in types) + f' S {mm} ' + ' '.join(f'{a} {b}' for a, b in ls) + f' R {rule}'
    z = ' '.join(z.split())
    nat = common.Native()
    t = m.get('t', 0)
    out = nat.both([f'lookup {z} {t}'])[0]
    last = None
    for i, (tt, ti) in enumerate(tr):
        if tt - spec_corr(ls, tt) <= t:
            last = i
    if n == 0 or last == n - 1:
        want = f'ok {m["roff"]} {int(m["rdst"])} -' if m.get('has_rule') else (f'ok {types[0][0]} {types[0][1]} -' if n == 0 else 'err NoAvailableLocalTimeType')
    else:
        ty = types[tr[last][1]] if last is not None else types[0]
        want = f'ok {ty[0]} {ty[1]} -'
    for o in out:
        if o.startswith('err zone'):
            break
        if o != want and 'OutOfRange' not in o:
            ck.violation(f'{h.name}: zone [{z}] at t={t}: lookup gives {o!r}, the latest transition at or before t prescribes {want!r}', {'cmd': f'lookup {z} {t}', 'want': want})
            return
    ck.inconclusive.append(f'{h.name} FAILED ({h.failed_checks[:2]}) but the decoded counterexample {m} does not reproduce natively')


def replay_plumb(ck, B, h):
    """c03_plumb uses S_pack: replay natively through DateTime::from_timespec and judge with the python references"""
    import kprop, zoneref, calref
    vecs = B.playback(h)
    if not vecs:
        ck.inconclusive.append(f'{h.name} FAILED ({h.failed_checks[:3]}); concrete playback produced no values')
        return
    z, m = kprop.decode_zone(vecs, 2, with_c=False)
    lay = kprop.zone_layout(2)[1:]
    k = len(lay) - (0 if m.get('has_rule') else 2)
    rest = vecs[k:k + 2]
    t = engb.le_int(rest[0], True) if rest else 0
    ns = engb.le_int(rest[1], False) if len(rest) > 1 else 0
    if len(vecs) > k + 2:
        z.types = z.types[:max(1, min(3, engb.le_int(vecs[k + 2], False)))]   # number of local time types the harness used
    nat = common.Native()
    # the solver's instant, then the decoded zone's own boundary instants (CBMC returns any failing instant, often an extreme one)
    cands = [t] + [x for (tt, _) in z.tr for x in (z.l2u(tt) - 1, z.l2u(tt), z.l2u(tt) + 1)]
    for tc in cands:
        cmd = f'localtime {z.cmd()} {tc} {ns}'
        for o in nat.both([cmd])[0]:
            if o.startswith('err zone') or o.startswith('err parse'):
                break
            l = z.lookup(tc)
            if l is None:
                # no trailing rule and at/after the last transition: that specific error (the error kind is part of the statement);
                # near the ends of i64 the scale conversion may overflow first, so any error is accepted there
                want = 'err NoAvailableLocalTimeType' if abs(tc) < 2**62 else 'err'
            else:
                w = tc + l[0]
                want = 'err' if not (calref.MIN_T <= w <= calref.MAX_T) else 'ok ' + ' '.join(map(str, calref.gmtime(w)[:6])) + f' {ns} {tc} {l[0]} {l[1]} -'
            if want.startswith('err') != o.startswith('err') or (not want.startswith('err') and not o.startswith(want)) or (want.startswith('err ') and o != want):
                ck.violation(f'{h.name}: `{cmd}` gives {o!r}; the zone prescribes {want!r}', {'cmd': cmd, 'want': want, 'kind': 'plumb'})
                return
    ck.inconclusive.append(f'{h.name} FAILED ({h.failed_checks[:2]}) but the decoded counterexample does not reproduce natively')


def replay(ck, case):
    c = case['case']
    if c.get('kind') == 'kani-playback':
        import kprop
        return kprop.replay_playback(ck, case)
    nat = common.Native()
    out = nat.both([c['cmd']])[0]
    print('native:', out, 'want:', c['want'])
    w = c['want']
    return 1 if any((not o.startswith(w)) or (w.startswith('err ') and o != w) for o in out) else 0
