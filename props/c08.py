"""C08 - TZif decoding is faithful.  Engine B: unit contracts on the real private functions + composition with abstracted callees."""
import common, kprop
from engb import H

UNITS = [
    ('c08_header', 600, True, 'parse_header on an arbitrary 46-byte buffer and every shorter length: Ok <=> magic, version in {0,"2","3"}, counts consistent; fields = big-endian words at 20..44 in RFC order; error kind per cause; cursor advanced by 44'),
    ('c08_layout_v1_blocks', 900, True, 'read_data_blocks::<4> for six arbitrary u32 counts, buffer of symbolic length <= 96: Ok <=> total size <= len (u128 reference); seven adjacent slices in RFC order with the right sizes; counts <= bytes present'),
    ('c08_layout_v2_blocks', 900, True, 'read_data_blocks::<8>, same'),
    ('c08_records_min_v1', 1500, True, 'DataBlocks::<4>::parse on shape (1,1,4,0,0,0), all bytes symbolic: transition = sign-extended BE time + index byte; type = BE i32, flag 0/1, NUL-terminated designation at index (incl. suffixes); error kinds; result = TimeZone::new of those lists'),
    ('c08_records_min_v2', 1500, True, 'DataBlocks::<8>::parse, same'),
    ('c08_records_designation_lengths_v2', 1800, True, 'same shape with a 10-byte designation table: every designation length 0..9 at every index (7 = longest legal, 8/9 refused as LocalTimeType errors), unterminated strings, index beyond the table'),
    ('c08_records_two_v2', 2400, True, 'DataBlocks::<8>::parse on shape (2,2,8,0,0,0): two transitions and two types with symbolic bytes, designation table "ABCD\\0XY\\0" with arbitrary indices (suffix sharing)'),
    ('c08_records_leap_indicators_v2', 1500, True, 'leap record = (BE i64, BE i32); (isstd,isut) pairs other than (0,0),(1,0),(1,1) refused'),
    ('c08_footer_framing', 1500, True, 'parse_footer on <=6 symbolic bytes (ASCII case specified): NL framing, NUL / leading colon refused, empty -> None, otherwise exactly the trimmed bytes and the extension flag go to the TZ-string decoder (abstracted)'),
    ('c08_extension_flag_is_version3', 900, True, 'extension flag given to the footer decoder <=> version of the header passed to parse() is 3; footer bytes handed over unchanged'),
    ('c08_file_composition', 3000, True, 'parse_tz_file with record decoding abstracted, arbitrary <=112-byte file: v1 = one header + 4-byte block, trailing byte -> RemainingDataV1; v2/3 = v1 block skipped using the first header, second header governs the 8-byte block, rest is the footer'),
]


def run(ck):
    quick = ck.tier == 'quick'
    ck.bounds += ['header: all buffers <= 46 bytes; layout: all u32 counts, buffers <= 96 bytes; records: shapes (1,1,4,0,0,0), (2,2,8,0,0,0) and (1,1,4,1,0|1,0|1) with symbolic bytes (designation bytes NUL or A-Z); footer framing: <= 6 bytes; whole-file composition: files <= 112 bytes with record decoding abstracted',
                  'outside: more than one transition/type per file (per-element loops are uniform: stated, not proved), real IANA files (see C10), 32-bit usize']
    ck.stubs += ['S_sub(parse_posix_tz) in c08_footer_framing: records the slice and flag it is given, returns Ok/Err nondeterministically (the real TZ-string decoder is C09)',
                 'S_sub(DataBlocks::parse) in c08_file_composition: records TIME_SIZE, the header fields, the first block\'s address and the footer slice; returns Ok/Err nondeterministically (its own contract: c08_records_*)',
                 'S_sub(parse_footer) in c08_extension_flag_is_version3']
    ck.trusted += ['Kani 0.68 / CBMC 6.11', 'paper step: units = reference and composition = reference composition  =>  whole decoder = reference']
    hs = [H(n, cap=c, required=r, meaning=m, playback=n in ('c08_header', 'c08_layout_v1_blocks', 'c08_layout_v2_blocks', 'c08_records_min_v1', 'c08_records_min_v2', 'c08_records_designation_lengths_v2', 'c08_records_two_v2', 'c08_records_leap_indicators_v2')) for n, c, r, m in UNITS]
    kprop.run_harnesses(ck, hs, on_fail=lambda B, h: (footer_replay(ck, B, h) if h.name == 'c08_footer_framing' else composition_replay(ck, B, h) if h.name == 'c08_file_composition' else kprop.playback_violation(ck, B, h) if h.playback_ok else ck.inconclusive.append(f'{h.name} FAILED: {h.failed_checks[:4]} (harness with abstracted callees: no native replay; unresolved)')))
    ck.functions += ['parse::tz_file::parse_header', 'read_data_blocks::<4>/<8>', 'DataBlocks::<4>/<8>::parse', 'parse_footer', 'parse_tz_file', 'parse::utils::{read_exact, read_chunk_exact}', 'LocalTimeType::new', 'TimeZone::new']
    ck.explanation = 'Whole-file harnesses do not finish (DESIGN.md C08); the decoder is verified as it is written: five units against an RFC 8536 reference typed in the harness, plus composition harnesses with abstracted callees.'


def tzif_block(time_size, timecnt, typecnt, charcnt, leapcnt, isstdcnt, isutcnt, valid_content):
    """data block for the given counts; valid_content: one UTC type named by the NUL-terminated string at index 0 (needs typecnt = 1,
    timecnt = leapcnt = 0), otherwise zero bytes (content of a skipped 32-bit block is irrelevant)"""
    chars = (b'UTC\0' + b'\0' * charcnt)[:charcnt] if valid_content else b'\0' * charcnt
    return (b'\0' * (timecnt * time_size) + b'\0' * timecnt + (b'\0' * 6) * typecnt + chars + b'\0' * (leapcnt * (time_size + 4)) + b'\0' * isstdcnt + b'\0' * isutcnt)


def tzif_header(version, isutcnt, isstdcnt, leapcnt, timecnt, typecnt, charcnt):
    import struct
    return b'TZif' + version + b'\0' * 15 + struct.pack('>6I', isutcnt, isstdcnt, leapcnt, timecnt, typecnt, charcnt)


def composition_replay(ck, B, h):
    """c08_file_composition abstracts the record decoder, so its counterexample cannot be replayed as it is. Replay by construction:
    WELL-FORMED files whose headers carry the counterexample's counts (32-bit block of a v2/v3 file: any counts that are consistent;
    64-bit block: one UTC type) must be accepted by the real decoder, and the same v1 body followed by one more byte must be refused."""
    vecs = B.playback(h)
    if not vecs or len(vecs) < 44:
        ck.inconclusive.append(f'{h.name} FAILED ({h.failed_checks[:3]}); concrete playback produced no file bytes')
        return
    import struct
    buf = bytes(v[0] for v in vecs[:112]) if len(vecs[0]) == 1 else bytes(vecs[0])   # kani::any::<[u8; N]>() draws the bytes one by one
    buf = buf + bytes(44)
    isut, isstd, leap, tim, typ, chr_ = [x % 4 for x in struct.unpack('>6I', buf[20:44])]
    typ, chr_ = max(typ, 1), max(chr_, 1)
    nat = common.Native()
    cands = []
    for (a, b, c, d) in {(isut and typ, isstd and typ, leap, tim), (0, 0, leap, tim), (0, 0, 1, 0), (0, 0, 0, 1), (typ, typ, 1, 1), (0, 0, 0, 0)}:
        for ver in (b'2', b'3'):
            f = (tzif_header(ver, a, b, c, d, typ, chr_) + tzif_block(4, d, typ, chr_, c, b, a, False) + tzif_header(ver, 0, 0, 0, 0, 1, 4) + tzif_block(8, 0, 1, 4, 0, 0, 0, True) + b'\nUTC0\n')
            cands.append((f'well-formed v{ver.decode()} file, 32-bit block with counts (isut,isstd,leap,time,type,char)=({a},{b},{c},{d},{typ},{chr_})', f, True))
    v1 = tzif_header(b'\0', 0, 0, 0, 0, 1, 4) + tzif_block(4, 0, 1, 4, 0, 0, 0, True)
    cands += [('well-formed v1 file', v1, True), ('v1 file followed by one more byte', v1 + b'\0', False)]
    outs = nat.both([f'tzif {f.hex()}' for _, f, _ in cands])
    for (what, f, want_ok), o in zip(cands, outs):
        for x in o:
            if x.startswith('panic') or x.startswith('ok') != want_ok:
                ck.violation(f'{h.name}: {what}: the real decoder answers {x[:120]!r}; RFC 8536 says {"accept" if want_ok else "reject"}', {'kind': 'tzif-file', 'cmd': f'tzif {f.hex()}', 'want_ok': want_ok})
                return
    ck.inconclusive.append(f'{h.name} FAILED ({h.failed_checks[:3]}); none of the well-formed files built from the counterexample\'s counts is mis-decoded natively')


def footer_reference(raw):
    """verdict of RFC 8536 footer framing for ASCII bytes when it does not depend on the TZ-string grammar, else None"""
    if not (len(raw) >= 1 and raw[:1] == b'\n' and raw[-1:] == b'\n'):
        return 'err TzFile(InvalidFooter)'
    t = raw.strip(b' \t\n\x0c\r')
    if t[:1] == b':' or b'\0' in t:
        return 'err TzFile(InvalidFooter)'
    if t == b'':
        return 'ok None'
    return None


def footer_replay(ck, B, h):
    """c08_footer_framing abstracts the TZ-string decoder; replay the counterexample's footer bytes through the real decoder natively"""
    vecs = B.playback(h)
    if not vecs or len(vecs) < 7:
        ck.inconclusive.append(f'{h.name} FAILED ({h.failed_checks[:3]}); concrete playback produced no values')
        return
    raw = bytes(v[0] for v in vecs[:6])[:engb_le(vecs[6])]
    nat = common.Native()
    for ext in (0, 1):
        cmd = f'tzif_footer {raw.hex() or "-"} {ext}'
        want = footer_reference(raw) if all(b < 0x80 for b in raw) else None
        for o in nat.both([cmd])[0]:
            if o.startswith('panic'):
                ck.violation(f'{h.name}: a TZif file whose footer is {raw!r} makes the decoder panic: {o}', {'kind': 'footer', 'cmd': cmd, 'raw': raw.hex()})
                return
            if want and o != want:
                ck.violation(f'{h.name}: footer {raw!r}: decoder says {o!r}, RFC 8536 framing prescribes {want!r}', {'kind': 'footer', 'cmd': cmd, 'raw': raw.hex()})
                return
    ck.inconclusive.append(f'{h.name} FAILED ({h.failed_checks[:3]}) but the footer {raw!r} is decoded as prescribed natively (stub contract problem?)')


def engb_le(v):
    return int.from_bytes(bytes(v), 'little')


def replay(ck, case):
    c = case['case']
    if c.get('kind') == 'tzif-file':
        out = common.Native().both([c['cmd']])[0]
        print([o[:100] for o in out], 'want accepted:', c['want_ok'])
        return 1 if any(o.startswith('panic') or o.startswith('ok') != c['want_ok'] for o in out) else 0
    if c.get('kind') == 'footer':
        nat = common.Native()
        raw = bytes.fromhex(c['raw'])
        out = nat.both([c['cmd']])[0]
        want = footer_reference(raw)
        print(out, want)
        return 1 if any(o.startswith('panic') or (want and o != want) for o in out) else 0
    return kprop.replay_playback(ck, case)
