"""C08 - TZif decoding is faithful.  Engine B: unit contracts on the real private functions + composition with abstracted callees."""
import common, kprop
from engb import H

UNITS = [
    ('c08_header', 600, True, 'parse_header on an arbitrary 46-byte buffer and every shorter length: Ok <=> magic, version in {0,"2","3"}, counts consistent; fields = big-endian words at 20..44 in RFC order; error kind per cause; cursor advanced by 44'),
    ('c08_layout_v1_blocks', 900, True, 'read_data_blocks::<4> for six arbitrary u32 counts, buffer of symbolic length <= 96: Ok <=> total size <= len (u128 reference); seven adjacent slices in RFC order with the right sizes; counts <= bytes present'),
    ('c08_layout_v2_blocks', 900, True, 'read_data_blocks::<8>, same'),
    ('c08_records_min_v1', 1500, True, 'DataBlocks::<4>::parse on shape (1,1,4,0,0,0), all bytes symbolic: transition = sign-extended BE time + index byte; type = BE i32, flag 0/1, NUL-terminated designation at index (incl. suffixes); error kinds; result = TimeZone::new of those lists'),
    ('c08_records_min_v2', 1500, True, 'DataBlocks::<8>::parse, same'),
    ('c08_records_two_v2', 2400, True, 'DataBlocks::<8>::parse on shape (2,2,8,0,0,0): two transitions and two types with symbolic bytes, designation table "ABCD\\0XY\\0" with arbitrary indices (suffix sharing)'),
    ('c08_records_leap_indicators_v2', 1500, True, 'leap record = (BE i64, BE i32); (isstd,isut) pairs other than (0,0),(1,0),(1,1) refused'),
    ('c08_footer_framing', 1500, True, 'parse_footer on <=6 symbolic bytes (ASCII case specified): NL framing, NUL / leading colon refused, empty -> None, otherwise exactly the trimmed bytes and the extension flag go to the TZ-string decoder (abstracted)'),
    ('c08_extension_flag_is_version3', 900, True, 'extension flag given to the footer decoder <=> version of the header passed to parse() is 3; footer bytes handed over unchanged'),
    ('c08_file_composition', 3000, True, 'parse_tz_file with record decoding abstracted, arbitrary <=112-byte file: v1 = one header + 4-byte block, trailing byte -> RemainingDataV1; v2/3 = v1 block skipped using the first header, second header governs the 8-byte block, rest is the footer'),
]


def run(ck):
    quick = ck.tier == 'quick'
    ck.bounds += ['header: all buffers <= 46 bytes; layout: all u32 counts, buffers <= 96 bytes; records: shapes (1,1,4,0,0,0), (2,2,8,0,0,0) and (1,1,4,1,0|1,0|1) with symbolic bytes (designation bytes NUL or A-Z); footer framing: <= 6 bytes; whole-file composition: files <= 112 bytes with record decoding abstracted',
                  'outside: more than one transition/type per file (per-element loops are uniform: stated, not proved), real IANA files (see C10), 32-bit usize']
    ck.stubs += ['S_sub(parse_posix_tz) in c08_footer_framing: records the slice and flag it is given, returns Ok/Err nondeterministically (the real TZ-string decoder is C09)',
                 'S_sub(DataBlocks::parse) in c08_file_composition: records TIME_SIZE, the header fields, the first block\'s address and the footer slice; returns Ok/Err nondeterministically (its own contract: c08_records_*)',
                 'S_sub(parse_footer) in c08_extension_flag_is_version3']
    ck.trusted += ['Kani 0.68 / CBMC 6.11', 'paper step: units = reference and composition = reference composition  =>  whole decoder = reference']
    hs = [H(n, cap=c, required=r, meaning=m, playback=n in ('c08_header', 'c08_layout_v1_blocks', 'c08_layout_v2_blocks', 'c08_records_min_v1', 'c08_records_min_v2', 'c08_records_two_v2', 'c08_records_leap_indicators_v2')) for n, c, r, m in UNITS]
    kprop.run_harnesses(ck, hs)
    ck.functions += ['parse::tz_file::parse_header', 'read_data_blocks::<4>/<8>', 'DataBlocks::<4>/<8>::parse', 'parse_footer', 'parse_tz_file', 'parse::utils::{read_exact, read_chunk_exact}', 'LocalTimeType::new', 'TimeZone::new']
    ck.explanation = 'Whole-file harnesses do not finish (DESIGN.md C08); the decoder is verified as it is written: five units against an RFC 8536 reference typed in the harness, plus composition harnesses with abstracted callees.'


def replay(ck, case):
    return kprop.replay_playback(ck, case)
