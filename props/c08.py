"""C08 - TZif decoding is faithful.  Engine B: unit contracts on the real private functions + composition with abstracted callees."""
import common, kprop
from engb import H

UNITS = [
    ('c08_header', 600, True, 'parse_header on an arbitrary 46-byte buffer and every shorter length: Ok <=> magic, version in {0,"2","3"}, counts consistent; fields = big-endian words at 20..44 in RFC order; error kind per cause; cursor advanced by 44'),
    ('c08_layout_v1_blocks', 900, True, 'read_data_blocks::<4> for six arbitrary u32 counts, buffer of symbolic length <= 96: Ok <=> total size <= len (u128 reference); seven adjacent slices in RFC order with the right sizes; counts <= bytes present'),
    ('c08_layout_v2_blocks', 900, True, 'read_data_blocks::<8>, same'),
    ('c08_records_min_v1', 1500, True, 'DataBlocks::<4>::parse on shape (1,1,4,0,0,0), all bytes symbolic: transition = sign-extended BE time + index byte; type = BE i32, flag 0/1, NUL-terminated designation at index (incl. suffixes); error kinds; result = TimeZone::new of those lists'),
    ('c08_records_min_v2', 1500, True, 'DataBlocks::<8>::parse, same'),
    ('c08_records_designation_lengths_v2', 1800, True, 'same shape with a 10-byte designation table: every designation length 0..9 at every index (7 = longest legal, 8/9 refused as LocalTimeType errors), unterminated strings, index beyond the table'),
    ('c08_records_two_v2', 2400, True, 'DataBlocks::<8>::parse on shape (2,2,8,0,0,0): two transitions and two types with symbolic bytes, designation table "ABCD\\0XY\\0" with arbitrary indices (suffix sharing)'),
    ('c08_records_leap_indicators_v2', 1500, True, 'leap record = (BE i64, BE i32); (isstd,isut) pairs other than (0,0),(1,0),(1,1) refused'),
    ('c08_footer_framing', 1500, True, 'parse_footer on <=6 symbolic bytes (ASCII case specified): NL framing, NUL / leading colon refused, empty -> None, otherwise exactly the trimmed bytes and the extension flag go to the TZ-string decoder (abstracted)'),
    ('c08_extension_flag_is_version3', 900, True, 'extension flag given to the footer decoder <=> version of the header passed to parse() is 3; footer bytes handed over unchanged'),
    ('c08_file_composition', 3000, True, 'parse_tz_file with record decoding abstracted, arbitrary <=112-byte file: v1 = one header + 4-byte block, trailing byte -> RemainingDataV1; v2/3 = v1 block skipped using the first header, second header governs the 8-byte block, rest is the footer'),
]


def run(ck):
    quick = ck.tier == 'quick'
    ck.bounds += ['header: all buffers <= 46 bytes; layout: all u32 counts, buffers <= 96 bytes; records: shapes (1,1,4,0,0,0), (2,2,8,0,0,0) and (1,1,4,1,0|1,0|1) with symbolic bytes (designation bytes NUL or A-Z); footer framing: <= 6 bytes; whole-file composition: files <= 112 bytes with record decoding abstracted',
                  'outside: more than one transition/type per file (per-element loops are uniform: stated, not proved), real IANA files (see C10), 32-bit usize']
    ck.stubs += ['S_sub(parse_posix_tz) in c08_footer_framing: records the slice and flag it is given, returns Ok/Err nondeterministically (the real TZ-string decoder is C09)',
                 'S_sub(DataBlocks::parse) in c08_file_composition: records TIME_SIZE, the header fields, the first block\'s address and the footer slice; returns Ok/Err nondeterministically (its own contract: c08_records_*)',
                 'S_sub(parse_footer) in c08_extension_flag_is_version3']
    ck.trusted += ['Kani 0.68 / CBMC 6.11', 'paper step: units = reference and composition = reference composition  =>  whole decoder = reference']
    hs = [H(n, cap=c, required=r, meaning=m, playback=n in ('c08_header', 'c08_layout_v1_blocks', 'c08_layout_v2_blocks', 'c08_records_min_v1', 'c08_records_min_v2', 'c08_records_designation_lengths_v2', 'c08_records_two_v2', 'c08_records_leap_indicators_v2')) for n, c, r, m in UNITS]
    kprop.run_harnesses(ck, hs, on_fail=lambda B, h: (footer_replay(ck, B, h) if h.name == 'c08_footer_framing' else kprop.playback_violation(ck, B, h) if h.playback_ok else ck.inconclusive.append(f'{h.name} FAILED: {h.failed_checks[:4]} (harness with abstracted callees: no native replay; unresolved)')))
    ck.functions += ['parse::tz_file::parse_header', 'read_data_blocks::<4>/<8>', 'DataBlocks::<4>/<8>::parse', 'parse_footer', 'parse_tz_file', 'parse::utils::{read_exact, read_chunk_exact}', 'LocalTimeType::new', 'TimeZone::new']
    ck.explanation = 'Whole-file harnesses do not finish (DESIGN.md C08); the decoder is verified as it is written: five units against an RFC 8536 reference typed in the harness, plus composition harnesses with abstracted callees.'


def footer_reference(raw):
    """verdict of RFC 8536 footer framing for ASCII bytes when it does not depend on the TZ-string grammar, else None"""
    if not (len(raw) >= 1 and raw[:1] == b'\n' and raw[-1:] == b'\n'):
        return 'err TzFile(InvalidFooter)'
    t = raw.strip(b' \t\n\x0c\r')
    if t[:1] == b':' or b'\0' in t:
        return 'err TzFile(InvalidFooter)'
    if t == b'':
        return 'ok None'
    return None


def footer_replay(ck, B, h):
    """c08_footer_framing abstracts the TZ-string decoder; replay the counterexample's footer bytes through the real decoder natively"""
    vecs = B.playback(h)
    if not vecs or len(vecs) < 7:
        ck.inconclusive.append(f'{h.name} FAILED ({h.failed_checks[:3]}); concrete playback produced no values')
        return
    raw = bytes(v[0] for v in vecs[:6])[:engb_le(vecs[6])]
    nat = common.Native()
    for ext in (0, 1):
        cmd = f'tzif_footer {raw.hex() or "-"} {ext}'
        want = footer_reference(raw) if all(b < 0x80 for b in raw) else None
        for o in nat.both([cmd])[0]:
            if o.startswith('panic'):
                ck.violation(f'{h.name}: a TZif file whose footer is {raw!r} makes the decoder panic: {o}', {'kind': 'footer', 'cmd': cmd, 'raw': raw.hex()})
                return
            if want and o != want:
                ck.violation(f'{h.name}: footer {raw!r}: decoder says {o!r}, RFC 8536 framing prescribes {want!r}', {'kind': 'footer', 'cmd': cmd, 'raw': raw.hex()})
                return
    ck.inconclusive.append(f'{h.name} FAILED ({h.failed_checks[:3]}) but the footer {raw!r} is decoded as prescribed natively (stub contract problem?)')


def engb_le(v):
    return int.from_bytes(bytes(v), 'little')


def replay(ck, case):
    c = case['case']
    if c.get('kind') == 'footer':
        nat = common.Native()
        raw = bytes.fromhex(c['raw'])
        out = nat.both([c['cmd']])[0]
        want = footer_reference(raw)
        print(out, want)
        return 1 if any(o.startswith('panic') or (want and o != want) for o in out) else 0
    return kprop.replay_playback(ck, case)
