"""C19 - feature configurations agree: no_std, alloc and std builds give the same results.
"Identical results in each configuration" is decided as "each configuration satisfies the same specification":
the crate is built (MIR dump) in the three configurations, the encoded kernels' MIR is compared across them, a set of solver queries
is decided on EACH configuration's own MIR, and allocation-free Kani harnesses are run under each feature set."""
import re
import common, kprop, engb, calref
from enga import *
from calspec import *

KERNELS = ['UtcDateTime::from_timespec', 'UtcDateTime::new', 'days_since_unix_epoch', 'is_leap_year', 'check_date_time_inputs', 'total_nanoseconds_to_timespec', 'nanoseconds_since_unix_epoch',
           'DateTime::new', 'DateTime::from_timespec_and_local', 'DateTime::from_timespec', 'TimeZoneRef::find_local_time_type', 'TimeZoneRef::check_inputs', 'TimeZoneRef::unix_time_to_unix_leap_time',
           'TimeZoneRef::unix_leap_time_to_unix_time', 'AlternateTime::new', 'AlternateTime::find_local_time_type', 'RuleDay::unix_time', 'check_two_month_week_days', 'check_two_julian_days',
           'check_month_week_day_and_julian_day', 'binary_search_i64', 'binary_search_transitions', 'binary_search_leap_seconds', 'TzAsciiStr::new', 'LocalTimeType::new', 'format_date_time']


class FeatureProbe:
    """the real crate built natively WITH A GIVEN FEATURE SET (dev profile, overflow checks on), driven through its public allocation-free API"""
    FEAT = {'nostd': '', 'alloc': '"alloc"', 'default': '"std"'}

    def __init__(s, feat):
        import os, shutil, subprocess
        s.dir = os.path.join(common.scratch(), 'probe_' + feat)
        common.copy_repo(os.path.join(s.dir, 'repo'))
        os.makedirs(os.path.join(s.dir, 'bin', 'src'), exist_ok=True)
        shutil.copy(os.path.join(common.VERIF, 'replay/probe/src/main.rs'), os.path.join(s.dir, 'bin', 'src', 'main.rs'))
        open(os.path.join(s.dir, 'bin', 'Cargo.toml'), 'w').write(
            '[package]\nname = "tzprobe"\nversion = "0.0.0"\nedition = "2021"\n\n[dependencies]\ntz-rs = { path = "../repo", default-features = false, features = [%s] }\n\n[profile.dev]\ndebug = false\n\n[workspace]\n' % s.FEAT[feat])
        env = dict(common.ENV, CARGO_TARGET_DIR=os.path.join(s.dir, 'target'), RUSTFLAGS='-C overflow-checks=on')
        p = subprocess.run(['cargo', 'build', '--offline', '-q'], cwd=os.path.join(s.dir, 'bin'), env=env, capture_output=True, text=True)
        if p.returncode != 0:
            raise common.Inconclusive(f'feature probe ({feat}) does not build: ' + p.stderr[-1500:])
        s.bin = os.path.join(s.dir, 'target', 'debug', 'tzprobe')

    def run(s, lines):
        import subprocess
        p = subprocess.run([s.bin], input='\n'.join(lines) + '\n', capture_output=True, text=True)
        return [l for l in p.stdout.split('\n') if l != ''] or ['panic']


_probes = {}


def probe(feat):
    if feat not in _probes:
        _probes[feat] = FeatureProbe(feat)
    return _probes[feat]


def want_utc(t, ns):
    if not (calref.MIN_T <= t <= calref.MAX_T):
        return 'err'
    g = calref.gmtime(t)
    return 'ok ' + ' '.join(map(str, g[:6])) + f' {ns} {t} wd={g[6]} yd={g[7]}'


def rp_feature(feat, kind, m):
    """native replay of a per-configuration model in THAT configuration, judged by the python calendar reference"""
    if kind == 'gmtime':
        t, ns = m.get('t', 0), m.get('ns', 0)
        cmd, want = f'gmtime {t} {ns}', want_utc(t, ns)
    elif kind == 'total':
        n = m.get('n', 0)
        sec, r = n // 10**9, n % 10**9
        cmd = f'utc_total {n}'
        want = want_utc(sec, r) if -2**63 <= sec < 2**63 else 'err'
        if want != 'err':
            want += f' total={n}'
    else:
        a = [m.get(k, d) for k, d in (('y', 2000), ('m8', 1), ('d8', 1), ('hh', 0), ('mm', 0), ('ss', 0), ('nn', 0))]
        cmd = 'utc_new ' + ' '.join(map(str, a))
        y, mo, d, h, mi, sec, nn = a
        ok = 1 <= mo <= 12 and 1 <= d <= calref.dim(y, mo) and h < 24 and mi < 60 and sec <= 60 and nn < 10**9 and not (y == 2**31 - 1 and (mo, d, h, mi, sec) == (12, 31, 23, 59, 60))
        want = 'ok' if ok else 'err'
    o = probe(feat).run([cmd])[0]
    bad = o.startswith('panic') or (want == 'err') != o.startswith('err') or (want not in ('ok', 'err') and o != want)
    if bad:
        return (f'features={feat}: `{cmd}` gives {o!r}; expected {want!r}', {'cmd': cmd, 'want': want, 'features': feat, 'kind': 'feature-probe'})
    return None


def norm(txt):
    txt = re.sub(r'\b(std|core|alloc)::', '', txt)
    return txt


def run(ck):
    quick = ck.tier == 'quick'
    ck.bounds += ['the three feature sets {}, {alloc}, {alloc,std}; per configuration: the Engine-A claims below (no bound beyond the types) and the allocation-free Kani harnesses with their own bounds']
    ck.trusted += ['rustc MIR + encoder + cvc5/z3', 'Kani/CBMC', 'operations whose MIR is textually identical (after std/core/alloc path normalisation) across configurations receive identical encodings, hence identical verdicts from C01..C18']
    texts = {}
    engines = {}
    for feat in ('nostd', 'alloc', 'default'):
        A = EngineA(ck, features=feat, tag='c19_' + feat, unwind={'from_timespec': 12, 'binary_search_i64': 5})
        engines[feat] = A
        texts[feat] = {}
        for k in KERNELS:
            try:
                texts[feat][k] = norm(A.mir.text_of(k, '(_1: i64, _2: u32)' if k == 'UtcDateTime::from_timespec' else ('_3: timezone::TimeZoneRef' if k == 'DateTime::from_timespec' else None)))
            except Exception as e:
                texts[feat][k] = f'<missing: {e}>'
    same, diff = [], []
    for k in KERNELS:
        vals = {texts[f][k] for f in texts}
        (same if len(vals) == 1 and not next(iter(vals)).startswith('<missing') else diff).append(k)
    ck.extra['mir_identical_across_configurations'] = same
    ck.extra['mir_differs_or_missing'] = diff
    q = common.Query('build:three_configurations_compile_and_kernels_have_identical_MIR', '', 'unsat', 'claim', True, None, 1, f'{len(same)}/{len(KERNELS)} kernels have identical MIR in no_std / alloc / std')
    q.verdict = 'unsat' if not diff else 'sat'
    ck.queries.append(q)
    if diff:
        ck.inconclusive.append(f'kernels whose MIR differs between feature configurations (or is missing): {diff}; the per-configuration solver queries below still decide the claims they cover')
    # the same claims decided on each configuration's own MIR
    allq = []
    for feat, A in engines.items():
        ex = A.session()
        t, ns = I('t', 'i64'), I('ns', 'u32')
        r = ex.call('UtcDateTime::from_timespec', [t, ns])
        ok = CMP('=', r['$d'], 0)
        f = r['$v']['Ok'][0]
        y, mo, d, h, mi, s = f['year'], f['month'], f['month_day'], f['hour'], f['minute'], f['second']
        A.claim(f'{feat}:gmtime_fields_valid', AND(ok, NOT(AND(valid_fields(y, mo, d, h, mi, s, 59), CMP('=', f['nanoseconds'], ns)))), get=[t, ns], replay=lambda m, feat=feat: rp_feature(feat, 'gmtime', m))
        A.claim(f'{feat}:gmtime_ok_iff_range', NOT(IFF(ok, AND(CMP('<=', calref.MIN_T, t), CMP('<=', t, calref.MAX_T)))), get=[t, ns], replay=lambda m, feat=feat: rp_feature(feat, 'gmtime', m))
        u = ex.call('unix_time', [y, mo, d, h, mi, s], g=ok, sigpart='(_1: i32, _2: u8')
        A.claim(f'{feat}:gmtime_inverse_of_timegm', AND(ok, NOT(CMP('=', u, t))), get=[t, ns], replay=lambda m, feat=feat: rp_feature(feat, 'gmtime', m), required=not quick or feat != 'default', cap=300)
        yy = I('y', 'i32')
        yn = CMP('<', yy, rng('i32')[1])
        D = lambda a, g=True: ex.call('days_since_unix_epoch', a, g=g)
        A.claim(f'{feat}:year_step', AND(yn, NOT(CMP('=', ARI('-', D([ARI('+', yy, 1), 1, 1], yn), D([yy, 1, 1])), ITE(sleap(yy), 366, 365, 'Int')))), get=[yy], replay=lambda m: None)
        m8, d8, hh, mm, ss, nn = I('m8', 'u8'), I('d8', 'u8'), I('hh', 'u8'), I('mm', 'u8'), I('ss', 'u8'), I('nn', 'u32')
        rn = ex.call('UtcDateTime::new', [yy, m8, d8, hh, mm, ss, nn])
        valid = AND(valid_fields(yy, m8, d8, hh, mm, ss, 60), CMP('<', nn, 10**9))
        excl = AND(CMP('=', yy, rng('i32')[1]), CMP('=', m8, 12), CMP('=', d8, 31), CMP('=', hh, 23), CMP('=', mm, 59), CMP('=', ss, 60))
        A.claim(f'{feat}:new_accepts_iff_real_date', NOT(IFF(CMP('=', rn['$d'], 0), AND(valid, NOT(excl)))), get=[yy, m8, d8, hh, mm, ss, nn], replay=lambda m, feat=feat: rp_feature(feat, 'new', m))
        n = I('n', 'i128')
        sp = ex.call('total_nanoseconds_to_timespec', [n])
        s_, r_ = sp['$v']['Ok'][0]
        A.claim(f'{feat}:ns_split_exact', AND(CMP('=', sp['$d'], 0), NOT(AND(CMP('=', n, ARI('+', ARI('*', s_, 10**9), r_)), CMP('<=', 0, r_), CMP('<', r_, 10**9)))), get=[n], replay=lambda m, feat=feat: rp_feature(feat, 'total', m))
        A.panic_obligations(f'{feat}:no_panic_overflow', replay=lambda m: None)
        allq += A.queries
        A.queries = []
        for fn in ex.encoded:
            if fn not in ck.functions:
                ck.functions.append(fn)
    A = engines['default']
    A.queries = allq
    qs = A.decide(cap=300 if quick else 1800)
    A.settle(qs)
    # allocation-free Kani harnesses under each feature set
    hs = []
    for feat in ('nostd', 'alloc', 'default'):
        hs += [engb.H('c03_lookup_n4', cap=1200, features=feat, playback=True, meaning=f'table lookup vs reference, features={feat}'),
               engb.H('c14_eq_ord', cap=600, features=feat, playback=True, meaning=f'DateTime equality/ordering, features={feat}'),
               engb.H('c13_ref_fixed_or_none', cap=1500, features=feat, playback=True, meaning=f'borrowed zone constructor vs spec, features={feat}'),
               engb.H('c12_insertions', cap=1500, features=feat, playback=True, meaning=f'leap conversions, features={feat}')]
        if not quick:
            hs += [engb.H('c05_table_n1', cap=2400, features=feat, meaning=f'buffer search vs lookup, features={feat}'), engb.H('c17_buffer_n1', cap=2400, features=feat, meaning=f'buffer search for every buffer size, features={feat}')]
    if quick:
        hs.append(engb.H('c05_table_n1', cap=2400, features='nostd', meaning='buffer search needs neither allocator nor std: search vs lookup verified in the no_std build'))
    kprop.run_harnesses(ck, hs)
    ck.explanation = ('Each configuration is built and its own MIR encoded; the kernel bodies are textually identical across configurations (so every Engine-A verdict of the other properties transfers), '
                      'a core set of claims is nevertheless decided per configuration, and the allocation-free harnesses verify under --no-default-features, +alloc and default.')


def replay(ck, case):
    c = case['case']
    if c.get('kind') == 'feature-probe':
        o = probe(c['features']).run([c['cmd']])[0]
        w = c['want']
        bad = o.startswith('panic') or (w == 'err') != o.startswith('err') or (w not in ('ok', 'err') and o != w)
        print(f"features={c['features']}: {c['cmd']} -> {o!r}; expected {w!r}; violates: {bad}")
        return 1 if bad else 0
    return kprop.replay_playback(ck, case)
