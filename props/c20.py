"""C20 - TZ value resolution follows tzset(3): file first, directory order, colon prefix.
Engine B (control logic over a nondeterministic virtual file system) + Engine A (what the formatted path token stands for)."""
import re
import common, kprop
from engb import H
from enga import *

REF_FN = '''
#[cfg(feature = "alloc")]
#[allow(dead_code, missing_docs)]
pub(crate) fn verif_ref_path_template(a: &str, b: &str) -> alloc::string::String {
    format!("{}/{}", a, b)
}
'''

INST = {
    'c20_localtime': '"localtime": exactly one read of /etc/localtime; valid -> Ok, malformed -> TzFile error, unreadable -> Io error',
    'c20_colon_relative_2dirs': '":X", two directories: dir order, first readable wins, malformed -> TzFile without fallback, none readable -> Io (no fallback)',
    'c20_relative_2dirs_not_posix': '"X", two directories: same reads; none readable -> decoded as POSIX description (-> TzString error for "X")',
    'c20_absolute': '"/abs": read as is (no directory prefix); unreadable -> POSIX fallback',
    'c20_colon_absolute': '":/abs": read as is; unreadable -> Io',
    'c20_trimmed_fallback': '" UTC0 ": one read; unreadable -> trimmed string decoded without extensions -> Ok',
    'c20_no_dirs_posix': '"UTC0" with no directories: no read at all, decoded as POSIX description',
    'c20_empty': '"": refused with Empty, no read',
    'c20_padded_absolute_is_relative': '" /abs": looked up exactly as given (one candidate under the directory, never "/abs" itself); whitespace is stripped only for the POSIX fallback',
    'c20_relative_3dirs_not_posix': '"X", three directories',
}


def run(ck):
    quick = ck.tier == 'quick'
    ck.bounds += ['TZ values: the listed concrete strings; directory lists of 0..3 entries; every one of the 3^k file systems (valid / malformed / unreadable per read); <= 4 reads',
                  'arbitrary path strings are outside the claim (paths are only concatenated and passed through)']
    ck.stubs += ['S_tzfile: parse::parse_tz_file := Ok(utc) on the 1-byte token of a valid file, TzFile error otherwise (the real decoder is C08)',
                 'S_fmt_token: alloc::fmt::format := token "p<k>" for its k-th call (what the token stands for: Engine A queries fmt:* below)',
                 'environment: read_file_fn is the harness\'s nondeterministic virtual file system (it IS the environment)']
    ck.trusted += ['Kani 0.68 / CBMC 6.11', 'core::slice::Iter / Iterator::find_map visit the slice in order (core, executed for real by Kani)', 'rustc MIR + encoder for the template check']
    names = list(INST)
    if quick:
        names = [n for n in names if n != 'c20_relative_3dirs_not_posix']
    hs = [H(n, cap=1800, meaning=INST[n]) for n in names]
    kprop.run_harnesses(ck, hs, on_fail=lambda B, h: on_fail(ck, B, h))
    engine_a_part(ck)
    ck.functions += ['TimeZoneSettings::parse_posix_tz', 'TimeZoneSettings::read_tz_file (+ closures)', 'TimeZoneSettings::new', 'parse::parse_posix_tz (real, on the concrete fallback strings)', 'TimeZone::new']
    ck.explanation = 'CBMC explores every file-system response table for each listed TZ value and asserts the exact read sequence and result class; the path template and its arguments are read from the MIR.'


def engine_a_part(ck):
    A = EngineA(ck, append={'src/timezone/mod.rs': REF_FN}, tag='c20')
    mir = A.mir
    reads = []

    def sym(name):
        return {'$sym': name}

    def m_format(args, g):
        fa = args[0]
        if not (isinstance(fa, dict) and '$fmtargs' in fa):
            raise M.Unsupported('format() with untracked Arguments')
        t = fa['$fmtargs'][0]
        return {'$formatted': (t.get('$bytes') if isinstance(t, dict) else t, [a.get('$arg') if isinstance(a, dict) else a for a in fa['$fmtargs'][1]])}
    ident = lambda args, g: args[0]

    def m_call(args, g):
        reads.append((g, args[0], args[1]))
        return {'$d': B('read_ok_is_err'), '$v': {}}
    summ = {'fmt::format': m_format, 'hint::must_use': ident, 'deref': ident, 'call': m_call, 'Result::ok': lambda a, g: sym('opt'), 'Result::map_err': lambda a, g: a[0]}
    ex = A.session(summaries=summ)
    # (a) closure#1: path = format("{}/{}", folder, tz_string), passed to the reader closure
    f1 = mir.find('read_tz_file::{closure#1}')
    folder, tzs, rfn = sym('folder'), sym('tz_string'), sym('read_file_fn')
    ex.call_item(f1, [[rfn, tzs], folder])
    ref = ex.call('verif_ref_path_template', [sym('a'), sym('b')])
    ok = True
    why = []
    if len(reads) != 1:
        ok = False
        why.append(f'closure#1 performs {len(reads)} reads')
    else:
        g, callee, argt = reads[0]
        path = argt[0] if isinstance(argt, list) else argt
        if not (isinstance(path, dict) and '$formatted' in path):
            ok = False
            why.append(f'the path handed to the reader is not the formatted string: {path}')
        else:
            t, fargs = path['$formatted']
            if t != ref['$formatted'][0]:
                ok = False
                why.append(f'path template {t} differs from the template of format!("{{}}/{{}}", ..) = {ref["$formatted"][0]}')
            if fargs != [folder, tzs]:
                ok = False
                why.append(f'template arguments are {fargs}, expected [folder (iterator item), tz_string (captured)]')
            if callee != rfn:
                ok = False
                why.append('the formatted path is not handed to the captured read function')
    q = common.Query('fmt:directory_candidate_is_folder_slash_name', '', 'unsat', 'claim', True, None, 1, 'k-th candidate path = format!("{}/{}", k-th directory, name), handed to the reader')
    q.verdict = 'unsat' if ok else 'sat'
    ck.queries.append(q)
    ck.extra['path_template'] = ref['$formatted'][0]
    # (b) the name that is looked up is the TZ value exactly as given (minus the ':' prefix): in TimeZoneSettings::parse_posix_tz every
    # call of read_tz_file receives the parameter itself, or Chars::as_str() of chars(parameter) after exactly one next(); in particular
    # not the whitespace-trimmed string, which is for the POSIX fallback only. (Kani's format stub is blind to the arguments, so the
    # directory candidates "p<k>" would hide a different name.)
    ok2, why2 = True, []
    try:
        txt = mir.text_of('TimeZoneSettings::parse_posix_tz')
        calls = re.findall(r'read_tz_file\((?:copy|move) _1, (?:copy|move) (_\d+)\)', txt)
        if len(calls) != 2:
            ok2 = False
            why2.append(f'{len(calls)} call sites of read_tz_file in parse_posix_tz (expected 2: the ":" form and the plain form)')
        nexts = len(re.findall(r'as std::iter::Iterator>::next\(', txt))
        for a in calls:
            if a == '_2':
                continue
            d = re.findall(r'(?<![\w.])%s = ([^;]*)' % re.escape(a), txt)
            src = [x for x in d if 'Chars' in x and '::as_str(' in x]
            if len(d) != 1 or len(src) != 1 or nexts != 1 or not re.search(r'= core::str::<impl str>::chars\(copy _2\)', txt):
                ok2 = False
                why2.append(f'read_tz_file is called with {a} := {d}, which is neither the TZ value itself nor Chars::as_str() after one next()')
    except M.Unsupported as e:
        ok2 = False
        why2.append(str(e))
    q2 = common.Query('fmt:looked_up_name_is_the_value_as_given', '', 'unsat', 'claim', True, None, 1, 'read_tz_file receives the TZ value as given (or the rest after ":"), never a trimmed or otherwise derived string')
    q2.verdict = 'unsat' if ok2 else 'sat'
    ck.queries.append(q2)
    if not (ok and ok2):
        # decide natively (real resolution over a virtual file system that logs every path) whether any listed instance deviates
        nat = common.Native()
        for name in CASES:
            r = native_instance(nat, name)
            if r:
                ck.violation('structural reading of the MIR failed (' + '; '.join(why + why2) + ') and natively: ' + r[0], r[1])
                break
        else:
            ck.inconclusive.append('C20 structural check failed: ' + '; '.join(why + why2) + ' (no listed instance deviates natively)')
    for f in ex.encoded:
        if f not in ck.functions:
            ck.functions.append(f)




# ---------------------------------------------------------------- native replay of a failed instance
CASES = {
    'c20_localtime': ('localtime', ['/a'], False), 'c20_colon_relative_2dirs': (':X', ['/a', '/b'], False), 'c20_relative_2dirs_not_posix': ('X', ['/a', '/b'], False),
    'c20_relative_3dirs_not_posix': ('X', ['/a', '/b', '/c'], False), 'c20_absolute': ('/abs', ['/a'], False), 'c20_colon_absolute': (':/abs', ['/a'], False),
    'c20_trimmed_fallback': (' UTC0 ', ['/a'], True), 'c20_no_dirs_posix': ('UTC0', [], True), 'c20_empty': ('', ['/a'], False),
    'c20_padded_absolute_is_relative': (' /abs', ['/a'], False),
}


def native_instance(nat, name):
    """every file-system response table of the instance, natively, against the reference; first mismatch or None"""
    import itertools, tzsetref
    tz, dirs, pok = CASES[name]
    for resp in itertools.product((0, 1, 2), repeat=max(1, len(dirs))):
        cmd = f'resolve {tz.encode().hex() or "-"} {"".join(map(str, resp))} ' + ' '.join(d.encode().hex() for d in dirs)
        out = nat.both([cmd])[0]
        want_reads, want_class = tzsetref.expected(tz, dirs, list(resp), lambda s: pok)
        for o in out:
            if o.startswith('panic'):
                return f'{name}: `{cmd}` panics', {'cmd': cmd, 'name': name}
            cls = o.split()[1]
            reads = [bytes.fromhex(x).decode() for x in o.split('[')[1].rstrip(']').split(',') if x]
            if cls != want_class or reads != want_reads:
                return (f'TZ value {tz!r}, directories {dirs}, file system {["valid", "malformed", "unreadable"][resp[0]] if len(resp) == 1 else [["valid", "malformed", "unreadable"][r] for r in resp]}: '
                        f'reads {reads} -> {cls}; tzset rules prescribe reads {want_reads} -> {want_class}', {'cmd': cmd, 'name': name})
    return None


def on_fail(ck, B, h):
    nat = common.Native()
    r = native_instance(nat, h.name) if h.name in CASES else None
    if r:
        ck.violation(f'{h.name}: {r[0]}', r[1])
    else:
        ck.inconclusive.append(f'{h.name} FAILED ({h.failed_checks[:3]}) but no file-system table reproduces a deviation natively (stub contract problem?)')


def replay(ck, case):
    nat = common.Native()
    r = native_instance(nat, case['case']['name'])
    print('violates:', r[0] if r else None)
    return 1 if r else 0
