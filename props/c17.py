"""C17 - allocation-free search equals the allocating one for every buffer size.  Engine B (Kani)."""
import common, engb, kprop
from engb import H
import c05


def run(ck):
    quick = ck.tier == 'quick'
    ck.bounds += ['compositional: every push sequence of <= 4 entries x every buffer length 0..6 (covers every zone whose result list has <= 4 entries, incl. DST-rule zones); direct harnesses: zones: <= 1 transition, no rule (quick) / <= 2 transitions + Fixed rule (thorough); buffer length symbolic in 0..=6, pre-filled with a stale sentinel entry; reference = the same search into a buffer larger than any result list (asserted exhaustive)',
                  'Vec instantiation (DateTime::find) vs buffer instantiation: <= 1 transition, rule none or Fixed']
    ck.stubs += c05.STUBS
    ck.trusted += ['Kani 0.68 / CBMC 6.11 (dev profile)']
    # structural premise of the compositional argument: the generic search sees its list only through `push`
    import re, os
    src = open(os.path.join(common.REPO, 'src/datetime/find.rs')).read()
    m = re.search(r'trait DateTimeList\s*\{(.*?)\n\}', src, re.S)
    methods = re.findall(r'\bfn\s+(\w+)', m.group(1)) if m else None
    generic_ok = bool(re.search(r'fn find_date_time\(\s*found_date_time_list: &mut impl DateTimeList', src))
    q = common.Query('structure:generic_search_sees_its_list_only_through_push', '', 'unsat', 'claim', True, None, 1, 'trait DateTimeList declares exactly one method `push(&mut self, FoundDateTimeKind)` and find_date_time takes `&mut impl DateTimeList`: both instantiations issue the same push sequence')
    q.verdict = 'unsat' if (methods == ['push'] and generic_ok) else 'sat'
    ck.queries.append(q)
    if q.verdict != 'unsat':
        ck.inconclusive.append(f'compositional premise of C17 no longer holds (trait methods: {methods}, generic signature found: {generic_ok}); only the direct harnesses apply')
    hs = [H('c17_push_sequences', cap=1800, playback=True, meaning='for every sequence of <= 4 arbitrary pushes and every buffer length 0..6 (stale sentinel): count = k, data = first min(n,k) entries in order, exhaustive <=> n >= k, slots beyond untouched, unique/earliest/latest equal those of the allocating list when exhaustive'),
          ]
    if not quick:
        hs.append(H('c17_vec_equals_buffer_n1', cap=7200, meaning='direct: DateTime::find (Vec) vs DateTime::find_n on the same symbolic zone (<=1 transition, rule none/Fixed): entry-wise equal, unique/earliest/latest equal'))
        hs.append(H('c17_buffer_n1', cap=7200, meaning='direct: find_n into a buffer of symbolic length vs an exhaustive buffer, <= 1 transition'))
        hs.append(H('c17_buffer_n2_rule', cap=7200, required=False, meaning='<= 2 transitions + Fixed rule'))
    kprop.run_harnesses(ck, hs, on_fail=lambda B, h: (kprop.playback_violation(ck, B, h) if h.playback_ok else on_fail(ck, B, h)))
    ck.functions += ['DateTime::find_n', 'DateTime::find', 'FoundDateTimeListRefMut::*', 'FoundDateTimeList::*', 'datetime::find::find_date_time', 'DateTimeList::push (both impls)']
    ck.explanation = 'Both instantiations of the generic search run on the same symbolic zone and civil time; CBMC compares the results for every buffer length.'


def on_fail(ck, B, h):
    """decode the zone and civil count of the counterexample, then ask the native oracle (both real instantiations, stale sentinel buffer) for every buffer length"""
    import re, zoneref, calref
    vecs = B.playback(h)
    if not vecs:
        ck.inconclusive.append(f'{h.name} FAILED ({h.failed_checks[:3]}); concrete playback produced no values')
        return
    N = int(re.search(r'_n(\d)', h.name).group(1))
    z, m = kprop.decode_zone(vecs, N)
    z.leaps = []
    if 'rule' not in h.name and 'vec' not in h.name:
        z.rule = None
    c = m.get('c', 0)
    nat = common.Native()
    if not (calref.MIN_T <= c <= calref.MAX_T):
        ck.inconclusive.append(f'{h.name} FAILED; counterexample outside the replayable range')
        return
    y, mo, d, hh, mi, s = calref.gmtime(c)[:6]
    for blen in range(0, N + 4):
        cmd = f'c17 {z.cmd()} {y} {mo} {d} {hh} {mi} {s} 5 {blen}'
        for o in nat.both([cmd])[0]:
            if o.startswith('DIFF') or o.startswith('panic'):
                ck.violation(f'{h.name}: zone [{z.cmd()}], local time {y}-{mo}-{d} {hh}:{mi}:{s}, buffer length {blen} (pre-filled with stale entries): {o}', {'cmd': cmd})
                return
    ck.inconclusive.append(f'{h.name} FAILED ({h.failed_checks[:3]}) but buffer and allocating search agree natively on the decoded case')


def replay(ck, case):
    nat = common.Native()
    o = nat.both([case['case']['cmd']])[0]
    print(o)
    return 1 if any(x.startswith(('DIFF', 'panic')) for x in o) else 0
