"""C17 - allocation-free search equals the allocating one for every buffer size.  Engine B (Kani)."""
import common, engb, kprop
from engb import H
import c05


def run(ck):
    quick = ck.tier == 'quick'
    ck.bounds += ['zones: <= 1 transition, no rule (quick) / <= 2 transitions + Fixed rule (thorough); buffer length symbolic in 0..=6, pre-filled with a stale sentinel entry; reference = the same search into a buffer larger than any result list (asserted exhaustive)',
                  'Vec instantiation (DateTime::find) vs buffer instantiation: <= 1 transition, rule none or Fixed']
    ck.stubs += c05.STUBS
    ck.trusted += ['Kani 0.68 / CBMC 6.11 (dev profile)']
    hs = [H('c17_buffer_n1', cap=1800, meaning='count equal, data = first min(len,k) entries in order (field-wise), exhaustive <=> len>=k, slots beyond untouched (sentinel), same error kind, unique/earliest/latest equal when exhaustive'),
          H('c17_vec_equals_buffer_n1', cap=1800, meaning='DateTime::find (Vec) returns entry-wise the same list, unique/earliest/latest equal')]
    if not quick:
        hs.append(H('c17_buffer_n2_rule', cap=7200, meaning='<= 2 transitions + Fixed rule'))
    kprop.run_harnesses(ck, hs)
    ck.functions += ['DateTime::find_n', 'DateTime::find', 'FoundDateTimeListRefMut::*', 'FoundDateTimeList::*', 'datetime::find::find_date_time', 'DateTimeList::push (both impls)']
    ck.explanation = 'Both instantiations of the generic search run on the same symbolic zone and civil time; CBMC compares the results for every buffer length.'


def replay(ck, case):
    return 1
