"""C18 - text rendering is ISO-8601-like, unambiguous, denotes the same instant/offset.  Engine A (output-event abstraction of core::fmt)."""
import re
import common
from enga import *
from calspec import *

REF_FN = '''
#[allow(dead_code, missing_docs)]
pub(crate) fn verif_ref_templates(f: &mut fmt::Formatter, a: i32, b: u8, c: u32, s: char, x: i64) -> fmt::Result {
    write!(f, "{}-{:02}-{:02}T{:02}:{:02}:{:02}.{:09}", a, b, b, b, b, b, c)?;
    write!(f, "{}{:02}:{:02}", s, x, x)?;
    write!(f, ":{:02}", x)?;
    write!(f, "Z")
}
'''


def tmpl(ev):
    t = ev.template
    return t.get('$bytes') if isinstance(t, dict) else repr(t)


def argvals(ev):
    return [(a.get('$arg'), a.get('$ty')) if isinstance(a, dict) else (a, None) for a in ev.args]


def ref_render(y, mo, d, h, mi, s, ns, off):
    out = f'{y}-{mo:02}-{d:02}T{h:02}:{mi:02}:{s:02}.{ns:09}'
    if off == 0:
        return out + 'Z'
    a = abs(off)
    out += ('-' if off < 0 else '+') + f'{a // 3600:02}:{a // 60 % 60:02}'
    if a % 60:
        out += f':{a % 60:02}'
    return out


def parse_back(txt):
    """independent reader of the textual form -> (y, mo, d, h, mi, s, ns, off) or None"""
    m = re.fullmatch(r'(-?\d+)-(\d\d)-(\d\d)T(\d\d):(\d\d):(\d\d)\.(\d{9})(Z|([+-])(\d{2,}):(\d\d)(?::(\d\d))?)', txt)
    if not m:
        return None
    off = 0
    if m.group(8) != 'Z':
        off = int(m.group(10)) * 3600 + int(m.group(11)) * 60 + int(m.group(12) or 0)
        if m.group(9) == '-':
            off = -off
    return tuple(int(m.group(i)) for i in range(1, 8)) + (off,)


def run(ck):
    A = EngineA(ck, append={'src/datetime/mod.rs': REF_FN}, tag='c18')
    ex = A.ex
    quick = ck.tier == 'quick'
    ck.bounds += ['none: all i32 years and offsets, all u8 field values, all u32 nanoseconds; templates compared as constants']
    ck.trusted += ['core::fmt renders a given template + arguments as documented ({} / {:02} / {:09} on integers and char): symbolic execution of core::fmt itself is out of reach (DESIGN.md C18)',
                   'rustc MIR (pinned nightly)', 'MIR->SMT encoder', 'cvc5/z3']
    ck.assumptions += ['output-event abstraction: Formatter::write_fmt(template, args) is an event that may fail; Argument::new_display::<T>(&x) carries the value of x as T']
    y, mo, d, h, mi, s = I('y', 'i32'), I('mo', 'u8'), I('d', 'u8'), I('h', 'u8'), I('mi', 'u8'), I('s', 'u8')
    ns = I('ns', 'u32')
    off = I('off', 'i32')
    fmtr = {'$formatter': True}
    r = ex.call('format_date_time', [fmtr, y, mo, d, h, mi, s, ns, off])
    evs = list(ex.events)
    ex.events.clear()
    n_obl = len(M.C.obl)
    # reference templates from the same compiler
    ex.call('verif_ref_templates', [fmtr, I('ra', 'i32'), I('rb', 'u8'), I('rc', 'u32'), I('rs', 'u32'), I('rx', 'i64')])
    refs = [tmpl(e) for e in ex.events]
    ex.events.clear()
    del M.C.obl[n_obl:]
    if len(refs) != 4:
        raise common.Inconclusive(f'reference function produced {len(refs)} events')
    ck.extra['templates'] = {'date_time': refs[0], 'offset': refs[1], 'offset_seconds': refs[2], 'zulu': refs[3]}
    struct_ok = True
    why = []
    if len(evs) != 4:
        struct_ok = False
        why.append(f'format_date_time emits {len(evs)} output events, expected 4 (date-time, offset, offset seconds, Z)')
    else:
        by_t = {tmpl(e): e for e in evs}
        for nm, t in zip(('date_time', 'offset', 'offset_seconds', 'zulu'), refs):
            if t not in by_t:
                struct_ok = False
                why.append(f'no output event uses the prescribed template for {nm} ({t}); templates used: {sorted(by_t)}')
    if not struct_ok:
        # the shape of the function changed: decide natively whether rendering still is what the property prescribes
        nat = common.Native()
        bad = native_render_check(ck, nat, 400)
        if bad:
            ck.violation(bad[0] + ' [' + '; '.join(why) + ']', bad[1])
        else:
            ck.inconclusive.append('format_date_time no longer has the shape the encoder understands: ' + '; '.join(why))
        return
    e1, e2, e3, ez = (by_t[t] for t in refs)
    a1, a2, a3 = argvals(e1), argvals(e2), argvals(e3)
    nat = common.Native()

    def rp(m):
        vals = [m.get(k, dv) for k, dv in (('y', 2000), ('mo', 1), ('d', 1), ('h', 0), ('mi', 0), ('s', 0), ('ns', 0), ('off', 0))]
        return native_one(nat, vals)
    getv = [y, mo, d, h, mi, s, ns, off]
    A.claim('event1_always_and_first', NOT(e1.guard is True) if isinstance(e1.guard, bool) else NOT(e1.guard), get=getv, replay=rp, meaning='the date-time part is not written unconditionally')
    want1 = [(y, 'i32'), (mo, 'u8'), (d, 'u8'), (h, 'u8'), (mi, 'u8'), (s, 'u8'), (ns, 'u32')]
    types_ok = len(a1) == 7 and all(t == wt for (v, t), (wv, wt) in zip(a1, want1))
    if not types_ok:
        ck.inconclusive.append(f'date-time event argument types {[t for v, t in a1]} != {[t for v, t in want1]}')
    A.claim('event1_args_are_the_fields_in_order', OR(*[NOT(CMP('=', v, wv)) for (v, t), (wv, wt) in zip(a1, want1)]) if len(a1) == 7 else True, get=getv, replay=rp,
            meaning='arguments of the date-time template are not (year, month, day, hour, minute, second, nanoseconds)')
    ok1, ok2, ok3, okz = e1.ok, e2.ok, e3.ok, ez.ok
    ab = ITE(CMP('<', off, 0), ARI('-', 0, off), off, 'Int')
    A.claim('zulu_iff_offset_zero', NOT(IFF(ez.guard, AND(ok1, CMP('=', off, 0)))), get=getv, replay=rp, meaning='"Z" is written exactly when the offset is 0 (after a successful first write)')
    A.claim('offset_event_iff_nonzero', NOT(IFF(e2.guard, AND(ok1, NOT(CMP('=', off, 0))))), get=getv, replay=rp)
    if len(a2) == 3 and [t for v, t in a2] == ['char', 'i64', 'i64']:
        A.claim('offset_args_sign_hours_minutes', AND(e2.guard, NOT(AND(CMP('=', a2[0][0], ITE(CMP('<', off, 0), ord('-'), ord('+'), 'Int')), CMP('=', a2[1][0], fdiv(ab, 3600)), CMP('=', a2[2][0], fmod(fdiv(ab, 60), 60))))),
                get=getv, replay=rp, meaning="offset arguments are not (sign, |off| div 3600, (|off| div 60) mod 60) with sign '-' iff off<0")
    else:
        ck.inconclusive.append(f'offset event argument types {[t for v, t in a2]}')
    A.claim('seconds_event_iff_not_whole_minutes', NOT(IFF(e3.guard, AND(ok1, ok2, NOT(CMP('=', off, 0)), NOT(CMP('=', fmod(ab, 60), 0))))), get=getv, replay=rp,
            meaning='":SS" is appended exactly when the offset is not a whole number of minutes')
    if len(a3) == 1 and a3[0][1] == 'i64':
        A.claim('seconds_arg', AND(e3.guard, NOT(CMP('=', a3[0][0], fmod(ab, 60)))), get=getv, replay=rp)
    else:
        ck.inconclusive.append(f'seconds event argument types {[t for v, t in a3]}')
    failed = OR(AND(e1.guard, NOT(ok1)), AND(e2.guard, NOT(ok2)), AND(e3.guard, NOT(ok3)), AND(ez.guard, NOT(okz)))
    A.claim('error_propagated', NOT(IFF(CMP('=', r['$d'], 1), failed)), get=getv, replay=lambda m: None, meaning='result is Err exactly when an executed write failed (and nothing is written after a failure)')
    A.claim('vac_seconds', e3.guard, expect='sat', kind='vacuity')
    A.claim('vac_zulu', ez.guard, expect='sat', kind='vacuity')
    A.panic_obligations('no_panic_overflow(abs on widened offset)', get=getv, replay=rp)
    # Display impls hand over the right values
    ex.events.clear()
    u = {'year': y, 'month': mo, 'month_day': d, 'hour': h, 'minute': mi, 'second': s, 'nanoseconds': ns}
    ru = ex.call('UtcDateTime::fmt', [u, fmtr])
    A.claim('utc_display_passes_fields_and_offset_0', NOT(veq(ru, ex.call('format_date_time', [fmtr, y, mo, d, h, mi, s, ns, 0]))), replay=lambda m: None,
            meaning='Display for UtcDateTime != format_date_time(fields, 0)')
    dtv = dict(u)
    dtv['local_time_type'] = {'ut_offset': off, 'is_dst': B('isdst'), 'time_zone_designation': {'$d': 0, '$v': {}}}
    dtv['unix_time'] = I('ut', 'i64')
    rd = ex.call('DateTime::fmt', [dtv, fmtr])
    A.claim('datetime_display_passes_fields_and_its_offset', NOT(veq(rd, r)), replay=lambda m: None, meaning='Display for DateTime != format_date_time(fields, local_time_type.ut_offset)')
    qs = A.decide()
    A.settle(qs)
    # native cross-check on concrete values through the real core::fmt + independent reader (validates the trusted reading of the templates)
    bad = native_render_check(ck, nat, 300 if quick else 3000)
    if bad:
        ck.violation(bad[0], bad[1])
    ck.explanation = ('tz-rs decides the template, the argument values and the control flow; these are read from the real MIR (write_fmt as output event) and decided for all inputs; templates are byte-identical '
                      'to those the same compiler produces for the prescribed format strings. core::fmt itself is trusted; a native run of the real Display + an independent reader cross-checks that trust on concrete values.')


def native_one(nat, vals):
    y, mo, d, h, mi, s, ns, off = vals
    if not (1 <= mo <= 12 and 1 <= d <= 28 and h <= 23 and mi <= 59 and s <= 60 and ns < 10**9 and off > -2**31):
        return None
    cmd = f'fmt_dt {y} {mo} {d} {h} {mi} {s} {ns} {off} 0 -'
    for o in nat.both([cmd])[0]:
        if not o.startswith('ok '):
            continue   # date-time out of range for this offset: not a rendering question
        txt = o[3:]
        back = parse_back(txt)
        if txt != ref_render(*vals) or back != tuple(vals):
            return f'Display of {vals} is {txt!r}; prescribed form {ref_render(*vals)!r}; read back {back}', {'cmd': cmd, 'vals': list(vals)}
    return None


def native_render_check(ck, nat, n):
    for _ in range(n):
        vals = [ck.rng.choice([0, 1, -1, 9999, -9999, 10000, 2024, ck.rng.randrange(-2**31 + 2, 2**31 - 2)]), ck.rng.randrange(1, 13), ck.rng.randrange(1, 29), ck.rng.randrange(0, 24), ck.rng.randrange(0, 60),
                ck.rng.randrange(0, 61), ck.rng.choice([0, 1, 999999999, ck.rng.randrange(0, 10**9)]),
                ck.rng.choice([0, 1, -1, 59, 60, -60, 3599, 3600, -3600, 3661, 86399, -86399, 360000, -359999, 2**31 - 1, -2**31 + 1, ck.rng.randrange(-90000, 90000)])]
        r = native_one(nat, vals)
        ck.validated += 1
        if r:
            return r
    return None


def replay(ck, case):
    nat = common.Native()
    r = native_one(nat, case['case']['vals'])
    print('violates:', r[0] if r else None)
    return 1 if r else 0
