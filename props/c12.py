"""C12 - leap seconds: UTC <-> leap-count conversions monotone, consistent, drive lookups.  Engine B (Kani)."""
import common, engb
from engb import H

LEAP_LAYOUT = [('n', 'usize'), ('t0', 'i64'), ('c0', 'i32'), ('t1', 'i64'), ('c1', 'i32'), ('t2', 'i64'), ('c2', 'i32')]


def spec_corr(ls, l):
    c = 0
    for (t, k) in ls:
        if t < l or (k < c and t == l):
            c = k
        else:
            break
    return c


def deleted(ls, u):
    c = 0
    r = False
    for (t, k) in ls:
        if k < c and t - c == u:
            r = True
        c = k
    return r


def zone_cmd(ls, tr=(), types=((0, 0),), rule='none'):
    return (f'T {len(tr)} ' + ' '.join(f'{a} {b}' for a, b in tr) + f' L {len(types)} ' + ' '.join(f'{o} {d} -' for o, d in types) + f' S {len(ls)} ' + ' '.join(f'{a} {b}' for a, b in ls) + f' R {rule}').replace('  ', ' ')


def native_check(nat, ls, pts):
    """replay: evaluate both conversions natively around the given points and judge them against the declarative spec"""
    z = zone_cmd(ls)
    cmds = []
    for p in pts:
        cmds += [f'l2u {z} {p}', f'u2l {z} {p}']
    outs = nat.both(cmds)
    for i, p in enumerate(pts):
        for k in (0, 1):
            a, b = outs[2 * i][k], outs[2 * i + 1][k]
            if a.startswith('err zone') or b.startswith('err zone'):
                return None
            want = p - spec_corr(ls, p)
            if a.startswith('ok') and -2**63 <= want < 2**63 and int(a.split()[1]) != want:
                return f'leap table {ls}: unix_leap_time_to_unix_time({p}) = {a.split()[1]}, the count denotes UTC {want}', {'cmd': f'l2u {z} {p}', 'ls': ls, 'pts': pts}
            if b.startswith('ok') and not deleted(ls, p):
                L = int(b.split()[1])
                back = nat.both([f'l2u {z} {L}'])[0][k]
                if back.startswith('ok') and int(back.split()[1]) != p:
                    return f'leap table {ls}: UTC {p} -> count {L} -> UTC {back.split()[1]} (round trip broken)', {'cmd': f'u2l {z} {p}', 'ls': ls, 'pts': pts}
    return None


def run(ck):
    B = engb.EngineB(ck)
    quick = ck.tier == 'quick'
    ck.bounds += ['<= 3 leap-second records with arbitrary i64 times and i32 corrections filtered by the real TimeZoneRef::new (every adjacent pattern +/+, +/-, -/+, -/-); loops unwound 6 with unwinding assertions',
                  'lookup harness: 1 transition, <= 2 leap records, fixed trailing rule']
    ck.trusted += ['Kani 0.68 / CBMC 6.11 (CaDiCaL) model of the compiled MIR (dev profile: overflow checks on)']
    ck.stubs += ['S_unreach: RuleDay::unix_time and AlternateTime::find_local_time_type replaced by assert!(false) in c12_lookup_switch (proves they are not reached; no Alternate rule in that harness)']
    hs = [H('c12_insertions', cap=900, meaning='tables of inserted leap seconds only: l2u = declarative spec, monotone, round trip, Galois connection with a transition count, inserted second shares the next UTC value'),
          H('c12_with_deletions', cap=900, meaning='same with at least one record that lowers the correction (negative leap second)'),
          H('c12_lookup_switch', cap=1200, meaning='find_local_time_type switches type exactly at the UTC instant the transition count denotes (<=2 leap records)')]
    hs.append(H('c12_binary_search_leap_seconds_every_length_upto_64', cap=600, playback=True, meaning='the binary-search helper used by unix_leap_time_to_unix_time on a fixed increasing leap table of every length 0..64 (27 real records today) and every key: Ok(index) / Err(insertion point)'))
    if not quick:
        hs.append(H('c12_four_records', cap=7200, required=False, playback=True, meaning='tables of <= 4 records: l2u = spec, monotone, round trip, Galois connection'))
    B.run(hs)
    nat = None
    for h in hs:
        if h.verdict == 'FAILED':
            nat = nat or common.Native()
            vecs = B.playback(h)
            m = engb.decode(vecs, LEAP_LAYOUT)
            n = m.get('n', 0)
            ls = [(m.get(f't{i}', 0), m.get(f'c{i}', 0)) for i in range(min(n, 3))]
            pts = sorted({p + d for (t, c) in ls for p in (t, t - c) for d in (-2, -1, 0, 1, 2)})
            r = native_check(nat, ls, pts) if ls and h.name != 'c12_lookup_switch' and 'binary_search' not in h.name else None
            if r:
                ck.violation(f'{h.name}: {r[0]}', r[1])
                continue
            # fall back on the generic replay: the harness itself, natively, on the counterexample (these harnesses only have S_unreach stubs)
            ok, msg = engb.native_playback(B, h, vecs) if vecs else (None, 'no concrete values')
            if ok:
                ck.violation(f'{h.name} ({h.meaning[:120]}): natively, on the solver\'s counterexample, {msg}', {'kind': 'kani-playback', 'harness': h.name, 'features': 'default', 'unsafe': False, 'vecs': vecs})
            else:
                ck.inconclusive.append(f'{h.name} FAILED ({h.failed_checks[:2]}) but the counterexample {m} does not reproduce natively ({msg})')
    ck.samples += [{'harness': h.name, 'verdict': h.verdict, 'meaning': h.meaning, 'seconds': round(h.secs, 1)} for h in hs]
    ck.functions += ['TimeZoneRef::unix_time_to_unix_leap_time', 'TimeZoneRef::unix_leap_time_to_unix_time', 'binary_search_leap_seconds', 'TimeZoneRef::new/check_inputs', 'TimeZoneRef::find_local_time_type', 'binary_search_transitions']
    ck.explanation = 'CBMC decides the assertions for every table of <=3 records accepted by the real constructor and every i64 instant/count; the oracle is a declarative "correction in force" definition written in the harness.'


def replay(ck, case):
    if case['case'].get('kind') == 'kani-playback':
        import kprop
        return kprop.replay_playback(ck, case)
    nat = common.Native()
    c = case['case']
    r = native_check(nat, [tuple(x) for x in c['ls']], c['pts'])
    print('violates:', r[0] if r else None)
    return 1 if r else 0
