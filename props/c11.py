"""C11 - DST rule constructor accepts exactly the rules whose start/end order never flips.  Engine A.
Soundness over ALL i32 years (two symbolic years), completeness over the 29 concrete witness years 2001..2029."""
import common, calref, contracts
from enga import *
from calspec import *
from rulespec import *

I32 = rng('i32')
WITNESS_YEARS = list(range(2001, 2030))
RELS = [('same_year', 0, 0), ('end_vs_next_start', None, None), ('start_vs_next_end', None, None)]


def native_instants(nat, model, ts, te, years):
    """S(y), E(y) natively (real RuleDay::unix_time) for the rule of a solver model"""
    sutc = model.get('st', 0) - model.get('stdoff', 0)
    eutc = model.get('et', 0) - model.get('dstoff', 0)
    cmds = []
    for y in years:
        cmds.append(f'ruleday {day_cmd(model, "s", ts)} {y} {sutc}')
        cmds.append(f'ruleday {day_cmd(model, "e", te)} {y} {eutc}')
    out = nat.both(cmds)
    S, E = {}, {}
    for i, y in enumerate(years):
        a, b = out[2 * i], out[2 * i + 1]
        if a[0] != a[1] or b[0] != b[1] or not a[0].startswith('ok'):
            return None, None
        S[y] = int(a[0].split()[1])
        E[y] = int(b[0].split()[1])
    return S, E


def flips(S, E, years):
    """relations whose strict order differs between two years"""
    out = []
    ys = [y for y in years if y + 1 in S]
    for name, f in (('start(y) vs end(y)', lambda y: (S[y], E[y])), ('end(y) vs start(y+1)', lambda y: (E[y], S[y + 1])), ('start(y) vs end(y+1)', lambda y: (S[y], E[y + 1]))):
        lt = [y for y in ys if f(y)[0] < f(y)[1]]
        gt = [y for y in ys if f(y)[0] > f(y)[1]]
        if lt and gt:
            out.append((name, lt[0], gt[0]))
    return out


def run(ck):
    A = EngineA(ck, unwind={'binary_search_i64': 5})
    E_ = A.mir.enums
    nat = common.Native()
    quick = ck.tier == 'quick'
    ck.bounds += ['soundness: none beyond the types (both years symbolic over all i32 years for which y+1 fits)',
                  f'completeness: witness years restricted to the concrete years {WITNESS_YEARS[0]}..{WITNESS_YEARS[-1]} (a full 28-year solar cycle + 1), stronger than required',
                  'binary_search_i64 on the 12-entry month tables unrolled 5 times with an unwinding obligation']
    ck.trusted += ['rustc MIR (pinned nightly)', 'MIR->SMT encoder (validated natively on this run)', 'cvc5 (z3 second opinion)', 'models of i64::abs, i64::rem_euclid', 'meaning of RuleDay::unix_time = C04 layer 1']
    pairs = [(a, b) for a in range(3) for b in range(3)]
    if ck.only:
        pairs = [(a, b) for (a, b) in pairs if f'{a}{b}' in ck.only]
    all_q = []
    for (ts, te) in pairs:
        tagn = f'{NAMES[ts]}|{NAMES[te]}'
        cases = None
        if ts == 2 and te == 2:
            cases = [(f'sm={a},em={b}', f'(assert (= sm {a}))(assert (= em {b}))') for a in range(1, 13) for b in range(1, 13)]
        elif ts == 2:
            cases = [(f'sm={a}', f'(assert (= sm {a}))') for a in range(1, 13)]
        elif te == 2:
            cases = [(f'em={b}', f'(assert (= em {b}))') for b in range(1, 13)]
        ex = A.session()
        std = sym_ltt('std', window=False)
        dst = sym_ltt('dst', window=False)
        ds = sym_ruleday('s', ts)
        de = sym_ruleday('e', te)
        st = I('st', 'i32')
        et = I('et', 'i32')
        allv = ['stdoff', 'dstoff', 'st', 'et'] + day_vars('s') + day_vars('e')
        r = ex.call('AlternateTime::new', [std, dst, ds, st, de, et])
        n_obl = len(M.C.obl)
        isok = CMP('=', r['$d'], 0)
        kind = r['$v']['Err'][0]['$d']
        KE = E_['TransitionRuleError']
        w_std = AND(CMP('<', -25 * H, std['ut_offset']), CMP('<', std['ut_offset'], 26 * H))
        w_dst = AND(CMP('<', -25 * H, dst['ut_offset']), CMP('<', dst['ut_offset'], 26 * H))
        w_t = AND(CMP('<', -WEEK, st), CMP('<', st, WEEK), CMP('<', -WEEK, et), CMP('<', et, WEEK))

        def rp_new(m, ts=ts, te=te):
            o = nat.both([f'alt_new {alt_cmd(m, ts, te)}'])[0]
            so, do, a, b = m.get('stdoff', 0), m.get('dstoff', 0), m.get('st', 0), m.get('et', 0)
            win = (-25 * H < so < 26 * H, -25 * H < do < 26 * H, abs(a) < WEEK and abs(b) < WEEK)
            for x in o:
                if x.startswith('panic'):
                    return f'AlternateTime::new panics on {alt_cmd(m, ts, te)}', {'cmd': f'alt_new {alt_cmd(m, ts, te)}', 'kind': 'panic'}
                if x.startswith('ok') and not all(win):
                    return f'accepted although a window is violated: {alt_cmd(m, ts, te)}', {'cmd': f'alt_new {alt_cmd(m, ts, te)}', 'kind': 'window'}
                want = 'InvalidStdUtcOffset' if not win[0] else 'InvalidDstUtcOffset' if not win[1] else 'InvalidDstStartEndTime' if not win[2] else None
                if x.startswith('err') and want and want not in x:
                    return f'refused with {x} but the first violated window is {want}', {'cmd': f'alt_new {alt_cmd(m, ts, te)}', 'kind': 'window'}
            return None
        if (ts, te) == pairs[0] or not quick:
            A.claim(f'{tagn}:windows', NOT(AND(IMP(isok, AND(w_std, w_dst, w_t)),
                                               IMP(NOT(w_std), AND(NOT(isok), CMP('=', kind, KE['InvalidStdUtcOffset']))),
                                               IMP(AND(w_std, NOT(w_dst)), AND(NOT(isok), CMP('=', kind, KE['InvalidDstUtcOffset']))),
                                               IMP(AND(w_std, w_dst, NOT(w_t)), AND(NOT(isok), CMP('=', kind, KE['InvalidDstStartEndTime']))),
                                               IMP(AND(NOT(isok), w_std, w_dst, w_t), CMP('=', kind, KE['InconsistentRule'])))), get=allv, replay=rp_new,
                    meaning='Ok => all windows; a violated window => its specific error (in the order std, dst, times); InconsistentRule only when all windows hold')
        sutc = ARI('-', st, std['ut_offset'])
        eutc = ARI('-', et, dst['ut_offset'])
        A.claim(f'{tagn}:vac_ok', isok, expect='sat', kind='vacuity')
        inc = AND(NOT(isok), CMP('=', kind, KE['InconsistentRule']))
        A.claim(f'{tagn}:vac_inconsistent', inc, expect='sat', kind='vacuity')
        A.panic_obligations(f'{tagn}:no_panic_incl_unreachable', get=allv, replay=rp_new)
        # completeness: refused as inconsistent => some relation flips among the witness years
        do_complete = True
        if do_complete:
            Rc = lambda day, y: ex.call('RuleDay::unix_time', [day, y, sutc if day is ds else eutc], g=inc)
            Sy = {y: Rc(ds, y) for y in WITNESS_YEARS + [WITNESS_YEARS[-1] + 1]}
            Ey = {y: Rc(de, y) for y in WITNESS_YEARS + [WITNESS_YEARS[-1] + 1]}

            def noflip(f):
                return OR(AND(*[CMP('<=', *f(y)) for y in WITNESS_YEARS]), AND(*[CMP('>=', *f(y)) for y in WITNESS_YEARS]))
            stable = AND(noflip(lambda y: (Sy[y], Ey[y])), noflip(lambda y: (Ey[y], Sy[y + 1])), noflip(lambda y: (Sy[y], Ey[y + 1])))

            def rp_complete(m, ts=ts, te=te):
                o = nat.both([f'alt_new {alt_cmd(m, ts, te)}'])[0]
                if not all('InconsistentRule' in x for x in o):
                    return None
                ys = list(range(2000, 2402))
                S, E = native_instants(nat, m, ts, te, ys)
                if S is None:
                    return None
                if not flips(S, E, ys):
                    return (f'rule [{alt_cmd(m, ts, te)}] is refused as inconsistent although none of the three order relations flips in 2000..2400',
                            {'cmd': f'alt_new {alt_cmd(m, ts, te)}', 'kind': 'refused_stable', 'model': m, 'ts': ts, 'te': te})
                return None
            A.claim(f'{tagn}:complete', AND(inc, stable), get=allv, replay=rp_complete, cap=(600 if quick else 3000), cases=cases,
                    meaning=f'refused with InconsistentRule although no relation flips among the years {WITNESS_YEARS[0]}..{WITNESS_YEARS[-1]}')
        all_q += A.queries
        A.queries = []
        for f in ex.encoded:
            if f not in ck.functions:
                ck.functions.append(f)
        # ---- soundness on the calendar abstraction (contracts discharged once, below): all i32 years
        cal = contracts.CalAbs()
        ex = A.session(summaries=cal.summaries())
        cal.__init__()
        std = sym_ltt('std', window=False)
        dst = sym_ltt('dst', window=False)
        ds = sym_ruleday('s', ts)
        de = sym_ruleday('e', te)
        st = I('st', 'i32')
        et = I('et', 'i32')
        r = ex.call('AlternateTime::new', [std, dst, ds, st, de, et])
        isok = CMP('=', r['$d'], 0)
        y1 = I('y1')
        y2 = I('y2')
        assume(CMP('<=', I32[0], y1), CMP('<=', y1, I32[1] - 1), CMP('<=', I32[0], y2), CMP('<=', y2, I32[1] - 1))
        cal.link(y1)
        cal.link(y2)
        R = lambda day, y: ex.call('RuleDay::unix_time', [day, y, ARI('-', st, std['ut_offset']) if day is ds else ARI('-', et, dst['ut_offset'])], g=isok)
        S1, E1, S2, E2 = R(ds, y1), R(de, y1), R(ds, y2), R(de, y2)
        S1n, S2n, E1n, E2n = R(ds, ARI('+', y1, 1)), R(ds, ARI('+', y2, 1)), R(de, ARI('+', y1, 1)), R(de, ARI('+', y2, 1))

        def rp_sound(m, ts=ts, te=te):
            o = nat.both([f'alt_new {alt_cmd(m, ts, te)}'])[0]
            if not all(x.startswith('ok') for x in o):
                return None
            # the abstract years of the model are not real years: search a 400-year cycle natively for a flip of this rule
            ys = list(range(2000, 2402))
            S, E = native_instants(nat, m, ts, te, ys)
            if S is None:
                return None
            fl = flips(S, E, ys)
            if fl:
                return (f'accepted rule [{alt_cmd(m, ts, te)}] flips its order: {fl[0][0]} is "<" in year {fl[0][1]} and ">" in year {fl[0][2]}',
                        {'cmd': f'alt_new {alt_cmd(m, ts, te)}', 'kind': 'flip', 'model': m, 'ts': ts, 'te': te, 'years': ys})
            return None
        cap = 300 if quick else 1800
        A.claim(f'{tagn}:sound:same_year', AND(isok, CMP('<', S1, E1), CMP('>', S2, E2)), get=allv, replay=rp_sound, cap=cap, cases=cases,
                meaning='accepted, yet start<end in one year and start>end in another (calendar abstracted by contracts)')
        A.claim(f'{tagn}:sound:end_vs_next_start', AND(isok, CMP('<', E1, S1n), CMP('>', E2, S2n)), get=allv, replay=rp_sound, cap=cap, cases=cases,
                meaning='accepted, yet end(y)<start(y+1) in one year and > in another')
        A.claim(f'{tagn}:sound:start_vs_next_end', AND(isok, CMP('<', S1, E1n), CMP('>', S2, E2n)), get=allv, replay=rp_sound, cap=cap, cases=cases,
                meaning='accepted, yet start(y)<end(y+1) in one year and > in another')
        A.panic_obligations(f'{tagn}:no_panic_in_rule_day_arithmetic(abstract calendar)', get=allv, replay=lambda m: None)
        all_q += A.queries
        A.queries = []
        for f in ex.encoded:
            if f not in ck.functions:
                ck.functions.append(f)
        # ---- translator validation for this pair: random rules through AlternateTime::new, encoder (concrete) vs native
        if (ts, te) in ((0, 0), (0, 2), (2, 2), (1, 0)) or not quick:
            cx = A.concrete()
            vec = []
            for _ in range(60 if quick else 400):
                def rd(tag):
                    if tag == 0:
                        n = ck.rng.randrange(1, 366)
                        return {'$d': 0, '$v': {'Julian1WithoutLeap': [[n]]}}, f'J {n}'
                    if tag == 1:
                        n = ck.rng.randrange(0, 366)
                        return {'$d': 1, '$v': {'Julian0WithLeap': [[n]]}}, f'Z {n}'
                    mm, w, d = ck.rng.randrange(1, 13), ck.rng.randrange(1, 6), ck.rng.randrange(0, 7)
                    return {'$d': 2, '$v': {'MonthWeekDay': [{'month': mm, 'week': w, 'week_day': d}]}}, f'M {mm} {w} {d}'
                a, ac = rd(ts)
                if ck.rng.random() < 0.5 and ts == te:
                    b, bc = a, ac
                else:
                    b, bc = rd(te)
                so = ck.rng.choice([0, 3600, -18000, -25 * H, 26 * H, -25 * H + 1, 26 * H - 1])
                do = so + ck.rng.choice([3600, 0, -3600, 1800])
                t1 = ck.rng.choice([7200, 0, -WEEK + 1, WEEK - 1, WEEK, ck.rng.randrange(-WEEK, WEEK)])
                t2 = ck.rng.choice([7200, 10800, t1, t1 + do - so, t1 + do - so + ck.rng.choice([-1, 1, 86400, -86400]), ck.rng.randrange(-WEEK, WEEK)])
                vec.append((a, b, so, do, t1, t2, f'alt_new {so} 0 - {do} 1 - {ac} {t1} {bc} {t2}'))
            outs = nat.both([v[-1] for v in vec])
            inv = {v: k for k, v in KE.items()}
            for v, (dv, rl) in zip(vec, outs):
                mk = lambda off, dstf: {'ut_offset': off, 'is_dst': dstf, 'time_zone_designation': {'$d': 0, '$v': {}}}
                rr = cx.call('AlternateTime::new', [mk(v[2], False), mk(v[3], True), v[0], v[4], v[1], v[5]])
                enc = 'ok ' if rr['$d'] == 0 else 'err ' + inv[rr['$v']['Err'][0]['$d']]
                if dv != rl or dv.strip() != enc.strip():
                    ck.inconclusive.append(f'translator validation mismatch on `{v[-1]}`: encoder {enc!r} native dev {dv!r} release {rl!r}')
                    break
                ck.validated += 1
    ex = A.session()
    contracts.discharge(A, ex)
    A.panic_obligations('contract:no_panic_in_days_since_unix_epoch')
    ck.stubs += ['days_since_unix_epoch(y,m,d) := Jf(y)+cum(m,Lf(y))+d-1 and is_leap_year(y) := Lf(y) (uninterpreted Jf, Lf with the year-step axiom) in the soundness queries; discharged by the contract:* queries of this run']
    A.queries = all_q + A.queries
    qs = A.decide(cap=600 if quick else 2400)
    A.settle(qs)
    ck.extra['notation_pairs'] = [f'{NAMES[a]}|{NAMES[b]}' for a, b in pairs]
    ck.explanation = ('Reading of "never change sign": a flip is "<" in one year and ">" in another (ties are compatible with either order; their effect on evaluation is C04). '
                      'Soundness is an existential query over two symbolic years (all i32), completeness a query with 29 concrete witness years; nine notation pairs are separate encodings of the real '
                      'AlternateTime::new, the 200-line consistency analysis and RuleDay::unix_time.')


def replay(ck, case):
    nat = common.Native()
    c = case['case']
    out = nat.both([c['cmd']])[0]
    print('native (dev, release):', out)
    bad = None
    if c['kind'] == 'flip':
        S, E = native_instants(nat, c['model'], c['ts'], c['te'], c['years'])
        bad = all(o.startswith('ok') for o in out) and bool(flips(S, E, c['years']))
    elif c['kind'] == 'refused_stable':
        ys = list(range(2000, 2402))
        S, E = native_instants(nat, c['model'], c['ts'], c['te'], ys)
        bad = all('InconsistentRule' in o for o in out) and not flips(S, E, ys)
    elif c['kind'] == 'panic':
        bad = any(o.startswith('panic') for o in out)
    else:
        bad = True
    print('violates:', bad)
    return 1 if bad else 0
