"""C13 - zone constructor accepts exactly the well-formed zones, each with its own error.  Engine B (+ Engine A for the small constructors)."""
import common, engb, kprop
from engb import H
from enga import *


def run(ck):
    quick = ck.tier == 'quick'
    ck.bounds += ['<= 3 local time types (0 included), <= 3 transitions, <= 3 leap records, all numbers arbitrary; designations arbitrary 8-byte patterns (equality is bytewise); rule none / Fixed(any) / Alternate (what it prescribes is abstracted, see stubs)',
                  'TzAsciiStr::new/as_bytes (Engine A): arbitrary slice of symbolic length 0..9']
    ck.stubs += ['S_unreach (c13_ref_fixed_or_none, c13_owned_equals_borrowed)', 'S_rule_spec (c13_rule_alternate): AlternateTime::find_local_time_type := std or dst, nondeterministically (which one is right is C04)']
    ck.trusted += ['Kani 0.68 / CBMC 6.11 (dev profile)', 'rustc MIR + encoder + cvc5/z3 for the Engine-A part']
    hs = [H('c13_ref_fixed_or_none', cap=1500, playback=True, meaning='TimeZoneRef::new: Ok <=> spec predicate (exact i128 arithmetic in the spec); every Err kind names a violated clause'),
          H('c13_rule_alternate', cap=1500, meaning='with a DST rule: accepted <=> prescribed half equals the last transition\'s type in offset, flag and designation'),
          H('c13_owned_equals_borrowed', cap=1500, playback=True, meaning='TimeZone::new(vecs) and TimeZoneRef::new(slices): same verdict, same error kind, same contents')]
    kprop.run_harnesses(ck, hs)
    # ---- Engine A: LocalTimeType::new / with_ut_offset / TzAsciiStr::new + as_bytes on an arbitrary byte slice of symbolic length 0..9
    A = EngineA(ck, unwind={'new': 8, 'TzAsciiStr::new': 8})
    ex = A.ex
    CLASS = set(b'0123456789ABCDEFGHIJKLMNOPQRSTUVWXYZabcdefghijklmnopqrstuvwxyz+-')

    def rp_ascii(m, with_ltt=False):
        """native replay of a designation model, judged by the statement's own rule (3..7 bytes of [0-9A-Za-z+-])"""
        ln = m.get('n', 0)
        v = bytes(m.get(f'b{i}', 0) for i in range(min(ln, 9)))
        want_ok = 3 <= len(v) <= 7 and all(c in CLASS for c in v)
        cmds = [f'ascii {v.hex() or "-"}']
        if with_ltt:
            off = m.get('off', 0)
            want_ok = want_ok and off > -2**31
            cmds = [f'ltt {off} 0 {v.hex() or "-"}']
        for o in nat.both(cmds)[0]:
            if o.startswith('panic'):
                return f'`{cmds[0]}` panics', {'cmd': cmds[0], 'kind': 'designation', 'want_ok': want_ok}
            if o.startswith('ok') != want_ok:
                return (f'designation {v!r}: natively {"accepted" if o.startswith("ok") else "refused"} ({o!r}); the rule "3-7 characters of [A-Za-z0-9+-]" says {"accept" if want_ok else "refuse"}',
                        {'cmd': cmds[0], 'kind': 'designation', 'want_ok': want_ok})
            if want_ok and not with_ltt and o.split()[1] != (bytes([len(v)]) + v + bytes(7 - len(v))).hex():
                return f'designation {v!r} stored as {o!r}', {'cmd': cmds[0], 'kind': 'designation', 'want_ok': want_ok}
        return None
    E_ = A.mir.enums
    bs = [I(f'b{i}', 'u8') for i in range(9)]
    n = I('n')
    assume(CMP('<=', 0, n), CMP('<=', n, 9))
    inp = {'$a': bs, '$len': n}
    r = ex.call('TzAsciiStr::new', [inp])
    ok = CMP('=', r['$d'], 0)
    val = r['$v']['Ok'][0]

    def okch(b):
        return OR(AND(CMP('<=', 48, b), CMP('<=', b, 57)), AND(CMP('<=', 65, b), CMP('<=', b, 90)), AND(CMP('<=', 97, b), CMP('<=', b, 122)), CMP('=', b, 43), CMP('=', b, 45))
    spec = AND(CMP('<=', 3, n), CMP('<=', n, 7), *[OR(CMP('<=', n, i), okch(bs[i])) for i in range(9)])
    A.claim('ascii:accept_iff_3_to_7_chars_of_class', NOT(IFF(ok, spec)), get=bs + [n], replay=rp_ascii, meaning='TzAsciiStr::new accepts <=> 3<=len<=7 and every byte in [0-9A-Za-z+-]')
    lenbad = NOT(AND(CMP('<=', 3, n), CMP('<=', n, 7)))
    kind = r['$v']['Err'][0]['$d']
    A.claim('ascii:error_kind', AND(NOT(ok), NOT(ITE(lenbad, CMP('=', kind, E_['LocalTimeTypeError']['InvalidTimeZoneDesignationLength']), CMP('=', kind, E_['LocalTimeTypeError']['InvalidTimeZoneDesignationChar']), 'Bool'))), replay=lambda m: None)
    ab = ex.call('TzAsciiStr::as_bytes', [val], g=ok)
    ablen = ab['$len'] if isinstance(ab, dict) else len(ab)
    abarr = ab['$a'] if isinstance(ab, dict) else ab
    A.claim('ascii:as_bytes_returns_the_input', AND(ok, OR(NOT(CMP('=', ablen, n)), *[AND(CMP('<', i, n), NOT(CMP('=', abarr[i], bs[i]))) for i in range(min(7, len(abarr)))])), get=bs + [n], replay=lambda m: None,
            meaning='as_bytes(new(x)) != x')
    A.claim('ascii:first_byte_is_length(S_bytes contract)', AND(ok, NOT(CMP('=', val['bytes'][0], n))), replay=lambda m: None)
    A.claim('ascii:vac_ok', ok, expect='sat', kind='vacuity')
    off = I('off', 'i32')
    w = ex.call('LocalTimeType::with_ut_offset', [off])
    A.claim('with_ut_offset:accept_iff_not_i32_min', NOT(IFF(CMP('=', w['$d'], 0), CMP('>', off, rng('i32')[0]))), get=[off], replay=lambda m: None)
    dflag = B('isdst')
    full = ex.call('LocalTimeType::new', [off, dflag, {'$d': 1, '$v': {'Some': [inp]}}])
    A.claim('ltt_new:accept_iff', NOT(IFF(CMP('=', full['$d'], 0), AND(CMP('>', off, rng('i32')[0]), spec))), get=[off, n] + bs, replay=lambda m: rp_ascii(m, True))
    fv = full['$v']['Ok'][0]
    A.claim('ltt_new:fields_stored', AND(CMP('=', full['$d'], 0), NOT(AND(CMP('=', fv['ut_offset'], off), IFF(fv['is_dst'], dflag)))), replay=lambda m: None)
    none = ex.call('LocalTimeType::new', [off, dflag, {'$d': 0, '$v': {}}])
    A.claim('ltt_new:none_designation', NOT(IFF(CMP('=', none['$d'], 0), CMP('>', off, rng('i32')[0]))), replay=lambda m: None)
    A.panic_obligations('ascii:no_panic_unreachable_unwinding', get=bs + [n], replay=lambda m: None)
    # translator validation of TzAsciiStr::new on concrete inputs
    nat = common.Native()
    cx = A.concrete()
    vec = [b'', b'ab', b'abc', b'abcdefg', b'abcdefgh', b'a+c', b'a-c', b'a_c', b'A1z', b'ab\x00', b'123456789', b'\xc3\xa9ab']
    for _ in range(200):
        ln = ck.rng.randrange(0, 10)
        vec.append(bytes(ck.rng.choice(b'abzAZ09+-_ \x00\xff/:') for _ in range(ln)))
    outs = nat.both([f'ascii {v.hex() or "-"}' for v in vec])
    for v, (dv, rl) in zip(vec, outs):
        rr = cx.call('TzAsciiStr::new', [{'$a': list(v) + [0] * (9 - len(v)), '$len': len(v)}])
        enc_ok = rr['$d'] == 0
        if dv != rl or dv.startswith('ok') != enc_ok:
            ck.inconclusive.append(f'translator validation mismatch on TzAsciiStr::new({v!r}): encoder ok={enc_ok} native {dv!r}/{rl!r}')
            break
        if enc_ok:
            by = rr['$v']['Ok'][0]['bytes']
            if bytes(by).hex() != dv.split()[1]:
                ck.inconclusive.append(f'translator validation mismatch on TzAsciiStr::new({v!r}) bytes: encoder {bytes(by).hex()} native {dv}')
                break
        ck.validated += 1
    qs = A.decide(cap=300 if quick else 1200)
    A.settle(qs)
    ck.functions += ['TimeZoneRef::new/check_inputs', 'TimeZone::new', 'LocalTimeType::equal', 'TzAsciiStr::equal', 'TimeZoneRef::unix_leap_time_to_unix_time']
    ck.explanation = 'Zone constructor decided against a spec predicate written from the statement (CBMC, all lists up to 3); designation constructor decided on the MIR for every slice of length 0..9 (this also discharges the S_bytes stub contract used by other harnesses).'


def replay(ck, case):
    c = case['case']
    if c.get('kind') == 'designation':
        out = common.Native().both([c['cmd']])[0]
        print('native (dev, release):', out, 'want accepted:', c['want_ok'])
        return 1 if any(o.startswith('panic') or o.startswith('ok') != c['want_ok'] for o in out) else 0
    return kprop.replay_playback(ck, case)
