"""C04 - localtime (rule): POSIX DST rule evaluated correctly at every instant and year.  Engine A, compositional.
Layer 1: RuleDay::unix_time is what the notation says (real calendar code, all i32 years).
Layer 2: contracts of the calendar kernel and of from_timespec's year (discharged on the real MIR).
Layer 3: the real decision tree + real rule-day arithmetic over the contract abstraction, all years/instants."""
import os, json
import common, calref, contracts
from enga import *
from calspec import *
from rulespec import *

I32 = rng('i32')
KNOWN_ROLE = 'dst-rule-tie-year'   # F2, see known_findings.json


def pyday(m, h, tag):
    return ('J', m.get(h + 'j1', 1)) if tag == 0 else ('Z', m.get(h + 'j0', 0)) if tag == 1 else ('M', m.get(h + 'm', 1), m.get(h + 'w', 1), m.get(h + 'd', 0))


def native_rule_violation(nat, m, ts, te, quick=True):
    """search real years for an instant where the native lookup contradicts BOTH readings of the defining sentence.
    Returns (text, case) or None. Concrete runs here only *replay* a solver model (rule numbers come from the model)."""
    so, do, st, et = m.get('stdoff', 0), m.get('dstoff', 0), m.get('st', 0), m.get('et', 0)
    start, end = pyday(m, 's', ts), pyday(m, 'e', te)
    o = nat.both([f'alt_new {alt_cmd(m, ts, te)}'])[0]
    if not all(x.startswith('ok') for x in o):
        return None
    years = list(range(1999, 2405))
    north, south = calref.rule_pattern(start, st, end, et, so, do, years)
    if not (north or south):
        return None   # outside the property's quantifier
    cands = []
    for y in range(2001, 2402):
        S = calref.rule_day_instant(start, y, st - so)
        E = calref.rule_day_instant(end, y, et - do)
        j = calref.days_from_civil(y, 1, 1) * 86400
        for t in (S - 1, S, E - 1, E, j - 1, j, (S + E) // 2, j + 40 * 86400, j + 200 * 86400, j + 330 * 86400):
            cands.append(t)
    outs = nat.both([f'alt_find {alt_cmd(m, ts, te)} {t}' for t in cands])
    for t, (dv, rl) in zip(cands, outs):
        a = calref.rule_is_dst(start, st, end, et, so, do, t, 'A')
        b = calref.rule_is_dst(start, st, end, et, so, do, t, 'B')
        if a != b:
            continue
        for x in (dv, rl):
            if x.startswith('panic') or not x.startswith('ok'):
                return (f'lookup at {t} with rule [{alt_cmd(m, ts, te)}] gives {x}', {'cmd': f'alt_find {alt_cmd(m, ts, te)} {t}', 'model': m, 'ts': ts, 'te': te, 't': t})
            off = int(x.split()[1])
            isdst_flag = int(x.split()[2])
            want = (do, 1) if a else (so, 0)
            if (off, isdst_flag) != want and so != do:
                g = calref.gmtime(t)
                tie = calref.rule_day_instant(start, g[0], st - so) == calref.rule_day_instant(end, g[0], et - do)
                return (f'rule [{alt_cmd(m, ts, te)}] ({"northern" if north else "southern"} pattern): at t={t} ({g[0]}-{g[1]:02}-{g[2]:02}) the lookup says offset {off} but the instant is on '
                        f'{"daylight" if a else "standard"} time by the defining sentence (both readings){"; start and end coincide in that year" if tie else ""}',
                        {'cmd': f'alt_find {alt_cmd(m, ts, te)} {t}', 'model': m, 'ts': ts, 'te': te, 't': t, 'tie_year': tie, 'pattern': 'north' if north else 'south'})
    return None


def native_year_guard_violation(nat, m, ts, te):
    """replay of a year-guard / panic model: the rule numbers come from the solver model (the calendar in those queries is abstract, so
    the model's instant is not tied to a real year); the real lookup is run at instants of the first and last three years of the
    supported range. Ok <=> year within [i32::MIN+2, i32::MAX-2] (the function's documented refusal), never a panic."""
    o = nat.both([f'alt_new {alt_cmd(m, ts, te)}'])[0]
    if not all(x.startswith('ok') for x in o):
        return None
    cands = []
    for y in (calref.I32_MIN, calref.I32_MIN + 1, calref.I32_MIN + 2, calref.I32_MAX - 2, calref.I32_MAX - 1, calref.I32_MAX):
        j = calref.days_from_civil(y, 1, 1) * 86400
        for t in (j, j + 1, j + 8 * 86400, j + 100 * 86400, j + 200 * 86400, j + 300 * 86400, j + 356 * 86400, j + 365 * 86400 - 1):
            if calref.MIN_T <= t <= calref.MAX_T and calref.gmtime(t)[0] == y:
                cands.append((y, t))
    if 't' in m and calref.MIN_T <= m['t'] <= calref.MAX_T:
        cands.append((calref.gmtime(m['t'])[0], m['t']))
    outs = nat.both([f'alt_find {alt_cmd(m, ts, te)} {t}' for _, t in cands])
    for (y, t), (dv, rl) in zip(cands, outs):
        want_ok = calref.I32_MIN + 2 <= y <= calref.I32_MAX - 2
        for prof, x in (('dev', dv), ('release', rl)):
            if x.startswith('panic') or x.startswith('ok') != want_ok:
                return (f'rule [{alt_cmd(m, ts, te)}]: lookup at t={t} (year {y}) gives {x!r} in the {prof} profile; the lookup must answer Ok exactly for years within [i32::MIN+2, i32::MAX-2] and never panic',
                        {'cmd': f'alt_find {alt_cmd(m, ts, te)} {t}', 'kind': 'year-guard', 'want_ok': want_ok, 'model': m, 'ts': ts, 'te': te, 't': t})
    return None


def run(ck):
    A = EngineA(ck, unwind={'binary_search_i64': 5, 'from_timespec': 12})
    E_ = A.mir.enums
    nat = common.Native()
    quick = ck.tier == 'quick'
    known = common.load_known()
    ck.bounds += ['none beyond the types: every i32 year, every instant, rule numbers over the constructors\' full ranges; decision-tree layer uses a 7-year window of rule instants proved sufficient by the window_* queries',
                  'binary_search_i64 unrolled 5x, from_timespec month loop 12x (unwinding obligations)']
    ck.trusted += ['rustc MIR (pinned nightly)', 'MIR->SMT encoder (validated natively on this run)', 'cvc5/z3 portfolio', 'models of i64::rem_euclid, checked_sub',
                   'reading of "the following DST-end instant": claims are asserted wherever the two readings (an end coinciding with the start closes the period at once / only a strictly later end closes it) agree']
    pairs = [(a, b) for a in range(3) for b in range(3)]
    if ck.only:
        pairs = [(a, b) for (a, b) in pairs if f'{a}{b}' in ck.only]
    all_q = []

    # ---------------- layer 1: rule days are what the notation says (real code, real calendar)
    for tag in range(3):
        ex = A.session()
        day = sym_ruleday('r', tag)
        y = I('y', 'i32')
        dt = I('dt')
        assume(CMP('<', -(WEEK + 26 * H), dt), CMP('<', dt, WEEK + 26 * H))
        D = lambda a, g=True: ex.call('days_since_unix_epoch', a, g=g)
        got = ex.call('RuleDay::unix_time', [day, y, dt])
        want, cond = spec_rule_instant(D, day, tag, y, dt)

        def rp1(m, tag=tag):
            d_ = pyday(m, 'r', tag)
            yy, dd = m.get('y', 2000), m.get('dt', 0)
            cmd = f'ruleday {day_cmd(m, "r", tag)} {yy} {dd}'
            for o in nat.both([cmd])[0]:
                if o != f'ok {calref.rule_day_instant(d_, yy, dd)}':
                    return f'RuleDay {d_} in year {yy} at {dd}: native {o}, the notation denotes {calref.rule_day_instant(d_, yy, dd)}', {'cmd': cmd, 'kind': 'ruleday', 'day': list(d_), 'y': yy, 'dt': dd}
        A.claim(f'L1:{NAMES[tag]}:instant_is_what_the_notation_says', AND(cond, NOT(CMP('=', got, want))), get=day_vars('r') + [y, dt], replay=rp1,
                meaning='RuleDay::unix_time(y,dt) differs from the declaratively specified day (witness k for Mm.w.d chosen by the solver)')
        if tag == 2:
            mwd = day['$v']['MonthWeekDay'][0]
            first = D([y, mwd['month'], 1])
            dimv = sdim(y, mwd['month'])

            def okk(k):
                wd = fmod(ADD(first, k - 1 + 4), 7)
                return AND(CMP('<=', k, dimv), CMP('=', wd, mwd['week_day']),
                           ITE(CMP('<', mwd['week'], 5), AND(CMP('<', ARI('*', 7, ARI('-', mwd['week'], 1)), k), CMP('<=', k, ARI('*', 7, mwd['week']))), CMP('>', k, ARI('-', dimv, 7)), 'Bool'))
            A.claim('L1:Mm.w.d:witness_exists_and_is_unique', OR(AND(*[NOT(okk(k)) for k in range(1, 32)]), OR(*[AND(okk(a), okk(b)) for a in range(1, 32) for b in range(a + 1, 32)])),
                    get=day_vars('r') + [y], replay=lambda m: None, meaning='no (or more than one) day k of the month satisfies "w-th weekday d" for some y,m,w,d')
        A.panic_obligations(f'L1:{NAMES[tag]}:no_panic_overflow_unwinding', get=day_vars('r') + [y, dt], replay=rp1)
        all_q += A.queries
        A.queries = []
        for f in ex.encoded:
            if f not in ck.functions:
                ck.functions.append(f)

    # ---------------- layer 2: contracts (real code)
    ex = A.session()
    contracts.discharge(A, ex)
    t = I('t', 'i64')
    r = ex.call('UtcDateTime::from_timespec', [t, 0])
    ok = CMP('=', r['$d'], 0)
    fy = r['$v']['Ok'][0]['year']
    D = lambda a, g=True: ex.call('days_since_unix_epoch', a, g=g)
    ylt = AND(ok, CMP('<', fy, I32[1]))
    A.claim('contract:K3_year_of_from_timespec_brackets_t', AND(ylt, NOT(AND(CMP('<=', ARI('*', D([fy, 1, 1], ok), DAY), t), CMP('<', t, ARI('*', D([ARI('+', fy, 1), 1, 1], ylt), DAY))))), get=[t],
            replay=lambda m: None, meaning='from_timespec(t).year = Y but not days(Y,1,1)*86400 <= t < days(Y+1,1,1)*86400')
    A.claim('contract:K3_ok_iff_in_range', NOT(IFF(ok, AND(CMP('<=', calref.MIN_T, t), CMP('<=', t, calref.MAX_T)))), get=[t], replay=lambda m: None)
    A.panic_obligations('contract:no_panic_in_calendar_kernel')
    all_q += A.queries
    A.queries = []
    ck.stubs += ['days_since_unix_epoch / is_leap_year := Jf/Lf abstraction (contracts.py), UtcDateTime::from_timespec := "Ok iff MIN<=t<=MAX, year Y with Jf(Y)*86400 <= t < Jf(Y+1)*86400" in layer 3; each discharged by a contract:* query of this run (C01/C02 prove the same facts independently)']

    # ---------------- layer 3: decision tree + real rule-day arithmetic over the abstraction
    for (ts, te) in pairs:
        tagn = f'{NAMES[ts]}|{NAMES[te]}'
        cases = None
        if ts == 2 and te == 2:
            cases = [(f'sm={a},em={b}', f'(assert (= sm {a}))(assert (= em {b}))') for a in range(1, 13) for b in range(1, 13)]
        elif ts == 2:
            cases = [(f'sm={a}', f'(assert (= sm {a}))') for a in range(1, 13)]
        elif te == 2:
            cases = [(f'em={b}', f'(assert (= em {b}))') for b in range(1, 13)]
        cal = contracts.CalAbs()
        Yv = []

        def sum_from_timespec(args, g):
            t_, ns_ = args
            Y = I('Y', 'i32')
            Yv.append(Y)
            cal.link(Y)
            okr = AND(CMP('<=', calref.MIN_T, t_), CMP('<=', t_, calref.MAX_T))
            assume(IMP(okr, AND(CMP('<=', ARI('*', cal.J(Y), DAY), t_), CMP('<', t_, ARI('*', cal.J(ARI('+', Y, 1)), DAY)))))
            return {'$d': ITE(okr, 0, 1, 'Int'), '$v': {'Ok': [{'year': Y, 'month': I('mo_'), 'month_day': I('md_'), 'hour': I('h_'), 'minute': I('mi_'), 'second': I('se_'), 'nanoseconds': ns_}],
                                                        'Err': [{'$d': E_['TzError']['OutOfRange'], '$v': {}}]}}
        summ = cal.summaries()
        summ['UtcDateTime::from_timespec'] = sum_from_timespec
        ex = A.session(summaries=summ)
        cal.__init__()

        def full_ltt(h):
            l = sym_ltt(h, window=True)
            l['time_zone_designation'] = {'$d': I(h + 'dz'), '$v': {'Some': [{'bytes': [I(f'{h}b{i}', 'u8') for i in range(8)]}]}}
            assume(CMP('<=', 0, l['time_zone_designation']['$d']), CMP('<=', l['time_zone_designation']['$d'], 1))
            return l
        std = full_ltt('std')
        dst = full_ltt('dst')
        ds = sym_ruleday('s', ts)
        de = sym_ruleday('e', te)
        st = I('st')
        et = I('et')
        assume(CMP('<', -WEEK, st), CMP('<', st, WEEK), CMP('<', -WEEK, et), CMP('<', et, WEEK))
        rule = {'std': std, 'dst': dst, 'dst_start': ds, 'dst_start_time': st, 'dst_end': de, 'dst_end_time': et}
        allv = ['stdoff', 'dstoff', 'st', 'et'] + day_vars('s') + day_vars('e')
        t = I('t', 'i64')
        res = ex.call('AlternateTime::find_local_time_type', [rule, t])
        if not Yv:
            raise common.Inconclusive('find_local_time_type no longer calls UtcDateTime::from_timespec: layer 3 abstraction out of date')
        Y = Yv[0]
        resok = CMP('=', res['$d'], 0)
        lt = res['$v']['Ok'][0]
        inr = AND(CMP('<=', calref.MIN_T, t), CMP('<=', t, calref.MAX_T))
        inyr = AND(inr, CMP('<=', I32[0] + 2, Y), CMP('<=', Y, I32[1] - 2))
        sutc = ARI('-', st, std['ut_offset'])
        eutc = ARI('-', et, dst['ut_offset'])
        for k in range(-3, 4):
            cal.link(ARI('+', Y, k))
        yr = lambda k: ARI('+', Y, k)
        # the spec side evaluates the (layer-1 verified) rule-day function at the window years; guard: years exist
        gw = AND(CMP('<=', I32[0] + 3, Y), CMP('<=', Y, I32[1] - 4))
        S = {k: ex.call('RuleDay::unix_time', [ds, yr(k), sutc], g=AND(inyr, gw)) for k in range(-3, 5)}
        Ee = {k: ex.call('RuleDay::unix_time', [de, yr(k), eutc], g=AND(inyr, gw)) for k in range(-3, 5)}
        north = AND(*[AND(CMP('<=', S[k], Ee[k]), CMP('<=', Ee[k], S[k + 1])) for k in range(-3, 4)])
        south = AND(*[AND(CMP('<=', Ee[k], S[k]), CMP('<=', S[k], Ee[k + 1])) for k in range(-3, 4)])
        inter = OR(north, south)
        # the defining sentence, per interleaving pattern: northern periods are [S(k), E(k)), southern ones [S(k), E(k+1)).
        # A rule satisfying BOTH patterns (start and end coincide in every year) is ambiguous ("following" end = the coinciding one or
        # next year's): the claim is asserted there only where both formulas agree.
        rdN = OR(*[AND(CMP('<=', S[k], t), CMP('<', t, Ee[k])) for k in range(-3, 4)])
        rdS = OR(*[AND(CMP('<=', S[k], t), CMP('<', t, Ee[k + 1])) for k in range(-3, 4)])
        rdA = ITE(north, rdN, rdS, 'Bool')
        agree = OR(NOT(AND(north, south)), IFF(rdN, rdS))
        right = AND(resok, ITE(rdA, veq(lt, dst), veq(lt, std), 'Bool'))
        role = AND(CMP('=', S[0], Ee[0]), NOT(north))   # F2: tie in the queried year of a rule that is not of the northern pattern
        base = AND(inyr, gw, inter, agree)

        def rp3(m, ts=ts, te=te):
            return native_rule_violation(nat, m, ts, te, quick)
        A.claim(f'L3:{tagn}:dst_exactly_in_periods', AND(base, NOT(role), NOT(right)), get=allv, replay=rp3, cases=cases, cap=(300 if quick else 1800),
                meaning='(outside the known-finding role) lookup is not Ok(&dst) exactly inside [start, following end) / Ok(&std) outside, or the returned type is not the rule\'s own std/dst (offset, flag, designation)')
        q = A.claim(f'L3:{tagn}:dst_exactly_in_periods[tie-year role]', AND(base, role, NOT(right)), get=allv, replay=rp3, cases=cases, cap=(300 if quick else 1800), kind='known-role', required=False,
                    meaning='same claim restricted to the role of known finding F2 (start and end coincide in the queried year, rule not northern)')
        q.role = KNOWN_ROLE
        def rpy(m, ts=ts, te=te):
            return native_year_guard_violation(nat, m, ts, te)
        A.claim(f'L3:{tagn}:year_guard', AND(inr, NOT(IFF(resok, AND(CMP('<=', I32[0] + 2, Y), CMP('<=', Y, I32[1] - 2))))), get=allv, replay=rpy,
                meaning='in-range instant: Ok <=> year within [i32::MIN+2, i32::MAX-2]')
        A.claim(f'L3:{tagn}:out_of_range_is_error', AND(NOT(inr), NOT(AND(NOT(resok), is_variant(res['$v']['Err'][0], E_, 'TzError', 'OutOfRange')))), get=allv, replay=lambda m: None)
        # window sufficiency: periods starting before Y-3 have ended by t; starts after Y+3 are later than t
        A.claim(f'L3:{tagn}:window_future_starts_after_t', AND(inyr, gw, inter, CMP('<=', S[3], t)), get=allv, cases=cases, replay=lambda m: None)
        A.claim(f'L3:{tagn}:window_oldest_start_before_t', AND(inyr, gw, inter, CMP('>', S[-3], t)), get=allv, cases=cases, replay=lambda m: None,
                meaning='the start of year Y-3 is <= t: with increasing yearly instants and the interleaving pattern every period starting before Y-3 has ended by then')
        A.claim(f'L3:{tagn}:yearly_instants_increase', AND(inyr, gw, OR(CMP('<', ARI('-', S[1], S[0]), 364 * DAY), CMP('<', ARI('-', Ee[1], Ee[0]), 364 * DAY))), get=allv, cases=cases, replay=lambda m: None,
                meaning='start(y+1)-start(y) >= 364 days (same for end), for the symbolic year Y')
        j0 = ARI('*', cal.J(Y), DAY)
        k1 = lambda inst, dt_: AND(CMP('<=', ARI('+', j0, dt_), inst), CMP('<=', inst, ADD(j0, 365 * DAY, dt_)))
        k2 = lambda a, b: AND(CMP('<=', 364 * DAY, ARI('-', b, a)), CMP('<=', ARI('-', b, a), 371 * DAY))
        A.claim(f'L3:{tagn}:contracts_K1_K2_of_rule_day_instants', AND(inyr, gw, NOT(AND(k1(S[0], sutc), k1(Ee[0], eutc), k2(S[0], S[1]), k2(Ee[0], Ee[1])))), get=allv, cases=cases, replay=lambda m: None,
                meaning='K1: a rule-day instant of year Y lies within [Jan 1 Y + dt, Jan 1 Y + 365 d + dt]; K2: consecutive yearly instants are 364..371 days apart (contracts assumed by the abstract rule-zone search harnesses c05/c06_rule_abstract)')
        A.claim(f'L3:{tagn}:vac_dst', AND(base, NOT(role), rdA), expect='sat', kind='vacuity')
        A.claim(f'L3:{tagn}:vac_std', AND(base, NOT(role), NOT(rdA)), expect='sat', kind='vacuity')
        A.claim(f'L3:{tagn}:vac_south', AND(base, NOT(role), south, NOT(north), rdA), expect='sat', kind='vacuity')
        n_live = len(M.C.obl)
        A.panic_obligations(f'L3:{tagn}:no_panic_overflow_in_lookup', get=allv, replay=rpy, extra_pre=[])
        all_q += A.queries
        A.queries = []
        for f in ex.encoded:
            if f not in ck.functions:
                ck.functions.append(f)
    A.queries = all_q
    qs = A.decide(cap=300 if quick else 1800)
    # known-finding handling: SAT in the F2 role is replayed; if it reproduces and is listed, it is a KNOWN-FINDING, not a VIOLATION
    normal = [q for q in qs if q.kind != 'known-role']
    A.settle(normal)
    listed = [f for f in known.get('findings', []) if f.get('property') == 'C04' and f.get('role') == KNOWN_ROLE]
    hit = None
    for q in qs:
        if q.kind != 'known-role' or q.verdict != 'sat':
            continue
        r = q.replay(q.model)
        if not r:
            ck.not_covered.append(f'{q.name}: abstract model did not concretise to a native failure ({q.model})')
            continue
        text, case = r
        if listed and case.get('tie_year') and case.get('pattern') == 'south':
            hit = hit or text
        else:
            ck.violation(f'{q.name}: {text}', case)
    if hit:
        ck.known_hits.append(f'{listed[0]["id"]} role={KNOWN_ROLE}: {hit}')
    ck.extra['notation_pairs'] = [f'{NAMES[a]}|{NAMES[b]}' for a, b in pairs]
    ck.explanation = ('Three layers of solver queries over the real MIR: rule days = notation (all i32 years), contracts of the calendar kernel, and the real 12-leaf decision tree with the real rule-day '
                      'arithmetic over the contract abstraction (every year type, every instant). "Never at a year boundary" is implied: the specification contains no year boundary.')


def replay(ck, case):
    nat = common.Native()
    c = case['case']
    out = nat.both([c['cmd']])[0]
    print('native (dev, release):', out)
    if c.get('kind') == 'year-guard':
        bad = any(o.startswith('panic') or o.startswith('ok') != c['want_ok'] for o in out)
    elif c.get('kind') == 'ruleday':
        bad = any(o != f'ok {calref.rule_day_instant(tuple(c["day"]), c["y"], c["dt"])}' for o in out)
    else:
        bad = native_rule_violation(nat, c['model'], c['ts'], c['te']) is not None
    print('violates:', bad)
    return 1 if bad else 0
