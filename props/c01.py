"""C01 - gmtime: Unix time -> UTC calendar fields correct and total on the range.  Engine A."""
import common, calref
from enga import *
from calspec import *

I32 = rng('i32')


def judge_gmtime(native, t, ns=0):
    """does the native answer of from_timespec(t, ns) break C01? independent reference: calref"""
    if native.startswith('panic'):
        return f'from_timespec({t},{ns}) panics: {native}'
    inr = calref.MIN_T <= t <= calref.MAX_T
    if native.startswith('err'):
        if inr:
            return f'from_timespec({t}) refused ({native}) although its year fits i32'
        if 'OutOfRange' not in native:
            return f'from_timespec({t}) refused with {native}, not OutOfRange'
        return None
    f = [int(x) for x in native.split()[1:]]
    if not inr:
        return f'from_timespec({t}) accepted ({native}) although the year does not fit i32'
    want = calref.gmtime(t)
    got = tuple(f[:6]) + (f[7], f[8])
    if got != want or f[6] != ns:
        return f'from_timespec({t},{ns}) = {got} ns {f[6]}, the instant is {want} ns {ns} (year,month,day,h,m,s,weekday,yearday)'
    return None


def run(ck):
    A = EngineA(ck, unwind={'from_timespec': 12})
    ex = A.ex
    nat = common.Native()
    ck.bounds += ['month loop of from_timespec unrolled 12 times (the table length) with an unwinding obligation; no other bound: all 2^64 timestamps x 2^32 nanosecond values']
    ck.trusted += ['rustc MIR (pinned nightly) represents the source', 'MIR->SMT encoder (validated against native dev+release builds on this run)', 'cvc5 1.0.3 (z3 second opinion)',
                   'models of i64::checked_sub, i64::rem_euclid (positive constant divisor)']
    t = I('t', 'i64')
    ns = I('ns', 'u32')
    r = ex.call('UtcDateTime::from_timespec', [t, ns])
    ok = CMP('=', r['$d'], 0)
    f = r['$v']['Ok'][0]
    y, mo, d, h, mi, s = f['year'], f['month'], f['month_day'], f['hour'], f['minute'], f['second']

    def rp(m):
        tv, nv = m.get('t', 0), m.get('ns', 0)
        for o in nat.both([f'gmtime {tv} {nv}'])[0]:
            why = judge_gmtime(o, tv, nv)
            if why:
                return why, {'cmd': f'gmtime {tv} {nv}', 't': tv, 'ns': nv}
        return None
    A.claim('fields_valid', AND(ok, NOT(AND(valid_fields(y, mo, d, h, mi, s, 59), CMP('=', f['nanoseconds'], ns), inrange(y, 'i32')))), get=[t, ns], replay=rp,
            meaning='Ok(fields) but month/day/hour/minute/second out of range, day not in that month, or nanoseconds changed')
    u = ex.call('unix_time', [y, mo, d, h, mi, s], g=ok, sigpart='(_1: i32, _2: u8')
    A.claim('inverse_of_timegm', AND(ok, NOT(CMP('=', u, t))), get=[t, ns], replay=rp, meaning='Ok(fields) but unix_time(fields) != t  (with C02: fields are THE calendar fields of t)')
    # totality: the accepted range is exactly the instants whose year fits i32, bounds re-derived through the real unix_time
    cx = A.concrete()
    lo = cx.call('unix_time', [I32[0], 1, 1, 0, 0, 0], sigpart='(_1: i32, _2: u8')
    hi = cx.call('unix_time', [I32[1], 12, 31, 23, 59, 59], sigpart='(_1: i32, _2: u8')
    ck.extra['range_rederived'] = {'min': lo, 'max': hi, 'reference': [calref.MIN_T, calref.MAX_T]}
    if (lo, hi) != (calref.MIN_T, calref.MAX_T):
        ck.inconclusive.append(f'unix_time(i32::MIN,1,1,..)/(i32::MAX,12,31,..) = {lo},{hi} differ from the reference {calref.MIN_T},{calref.MAX_T} (see C02)')
    A.claim('ok_iff_year_fits_i32', NOT(IFF(ok, AND(CMP('<=', calref.MIN_T, t), CMP('<=', t, calref.MAX_T)))), get=[t, ns], replay=rp, meaning='accepted <=> MIN <= t <= MAX fails')
    A.claim('err_is_out_of_range', AND(NOT(ok), NOT(is_variant(r['$v']['Err'][0], A.mir.enums, 'TzError', 'OutOfRange'))), get=[t, ns], replay=rp)
    wd = ex.call('UtcDateTime::week_day', [f], g=ok)
    A.claim('week_day', AND(ok, NOT(CMP('=', wd, fmod(ARI('+', fdiv(t, 86400), 4), 7)))), get=[t, ns], replay=rp, meaning='week_day() != (floor(t/86400)+4) mod 7  (1970-01-01 is a Thursday)')
    yd = ex.call('UtcDateTime::year_day', [f], g=ok)
    jan1 = ex.call('days_since_unix_epoch', [y, 1, 1], g=ok)
    A.claim('year_day', AND(ok, NOT(AND(CMP('=', yd, ARI('-', fdiv(t, 86400), jan1)), CMP('<=', 0, yd), CMP('<=', yd, 365)))), get=[t, ns], replay=rp,
            meaning='year_day() != floor(t/86400) - days(year,1,1) or outside [0,365]')
    A.claim('vac_ok', ok, expect='sat', kind='vacuity')
    A.claim('vac_err', NOT(ok), expect='sat', kind='vacuity')
    A.claim('vac_feb29', AND(ok, CMP('=', mo, 2), CMP('=', d, 29)), expect='sat', kind='vacuity')
    A.panic_obligations('no_panic_overflow_unwinding', get=[t, ns], replay=rp)
    # check_unix_time (the range gate used by DateTime::new and the search) has the same range
    tt = I('tt', 'i64')
    c = ex.call('UtcDateTime::check_unix_time', [tt])
    A.claim('check_unix_time_same_range', NOT(IFF(CMP('=', c['$d'], 0), AND(CMP('<=', calref.MIN_T, tt), CMP('<=', tt, calref.MAX_T)))), get=[tt],
            replay=lambda m: None, meaning='check_unix_time accepts exactly [MIN,MAX]')
    # ---- translator validation against the native build
    vec = [0, -1, 1, 951782400, 951868800, 951868799, calref.MIN_T, calref.MAX_T, calref.MIN_T - 1, calref.MAX_T + 1, I64MIN, I64MAX, 86399, 86400, -86400, -86401,
           calref.unix_time(2000, 2, 29, 0, 0, 0), calref.unix_time(1900, 2, 28, 23, 59, 59), calref.unix_time(2100, 3, 1, 0, 0, 0), calref.unix_time(-1, 12, 31, 23, 59, 59),
           calref.unix_time(0, 1, 1, 0, 0, 0), calref.unix_time(1600, 12, 31, 0, 0, 0), calref.unix_time(2400, 2, 29, 12, 0, 0)]
    for _ in range(600 if ck.tier == 'quick' else 3000):
        k = ck.rng.choice([20, 31, 33, 40, 50, 56, 57, 63])
        vec.append(ck.rng.randrange(-(1 << k), 1 << k))
    for _ in range(200):
        yy = ck.rng.randrange(I32[0], I32[1])
        mm = ck.rng.randrange(1, 13)
        vec.append(calref.unix_time(yy, mm, ck.rng.choice([1, calref.dim(yy, mm)]), ck.rng.choice([0, 23]), ck.rng.choice([0, 59]), ck.rng.choice([0, 59])))
    outs = nat.both([f'gmtime {v} 7' for v in vec])
    for v, (dv, rl) in zip(vec, outs):
        rr = cx.call('UtcDateTime::from_timespec', [v, 7])
        if rr['$d'] == 0:
            g = rr['$v']['Ok'][0]
            wdv = cx.call('UtcDateTime::week_day', [g])
            ydv = cx.call('UtcDateTime::year_day', [g])
            enc = f"ok {g['year']} {g['month']} {g['month_day']} {g['hour']} {g['minute']} {g['second']} {g['nanoseconds']} {wdv} {ydv}"
        else:
            enc = 'err OutOfRange'
        if dv != rl or dv != enc:
            ck.inconclusive.append(f'translator validation mismatch at t={v}: encoder {enc!r} native dev {dv!r} release {rl!r}')
            break
        why = judge_gmtime(dv, v, 7)
        if why:
            ck.violation(why, {'cmd': f'gmtime {v} 7', 't': v, 'ns': 7})
            break
        ck.validated += 1
    M.C.obl.clear() if False else None
    qs = A.decide(cap=300 if ck.tier == 'quick' else 1800)
    A.settle(qs)
    ck.explanation = ('All 2^64 x 2^32 inputs: the real MIR of from_timespec (month loop unrolled 12x, unwinding obligation discharged) and of unix_time/week_day/year_day is '
                      'encoded over integers; the oracle is the defining relation "fields valid and timegm(fields) = t" (timegm itself is pinned to the true day count by C02).')


I64MIN, I64MAX = rng('i64')


def replay(ck, case):
    nat = common.Native()
    c = case['case']
    out = nat.both([c['cmd']])[0]
    print('native (dev, release):', out)
    why = judge_gmtime(out[0], c['t'], c.get('ns', 0)) or judge_gmtime(out[1], c['t'], c.get('ns', 0))
    print('violates:', why)
    return 1 if why else 0
