"""C14 - zoned date-time denotes one instant; fields match it; projection preserves it.  Engine A (constructors) + Engine B (plumbing, comparisons)."""
import common, calref, kprop
from engb import H
from enga import *
from calspec import *

I32 = rng('i32')


def judge_dt_new(native, a, off):
    y, mo, d, h, mi, s, ns = a
    if native.startswith('panic'):
        return f'DateTime::new{tuple(a)} offset {off} panics'
    v = calref.valid(y, mo, d, h, mi, s, ns)
    u = calref.unix_time(y, mo, d, h, mi, s) - off if v else None
    okw = v and calref.MIN_T <= u <= calref.MAX_T
    if native.startswith('ok'):
        f = native.split()
        if not okw:
            return f'DateTime::new{tuple(a)} offset {off} accepted although ' + ('the fields are not a real date' if not v else 'the instant is out of range')
        if int(f[8]) != u or [int(x) for x in f[1:8]] != list(a) or int(f[9]) != off:
            return f'DateTime::new{tuple(a)} offset {off}: unix_time {f[8]} (fields {f[1:8]}), expected {u}'
        return None
    if okw:
        return f'DateTime::new{tuple(a)} offset {off} refused ({native})'
    return None


def run(ck):
    quick = ck.tier == 'quick'
    ck.bounds += ['constructors (Engine A): none beyond the types', 'plumbing (Engine B): zones with <= 2 transitions, <= 1 leap record, rule none or Fixed; comparisons: two arbitrary DateTime literals (even inconsistent ones)']
    ck.trusted += ['rustc MIR + encoder + cvc5/z3', 'Kani/CBMC', 'C01 (from_timespec fields are the calendar fields of its argument) and C02 (unix_time is the true count) for the meaning of the invariant']
    ck.stubs += ['S_pack in c03_plumb (UtcDateTime::from_timespec := range gate + injective packing; discharged by C01)', 'S_unreach in c03_plumb']
    hs = [H('c14_eq_ord', cap=600, playback=True, meaning='== and partial_cmp depend only on (unix_time, nanoseconds), never None'),
          H('c03_plumb', cap=1500, meaning='from_timespec(t,ns,zone) and project(): instant and nanoseconds preserved, type = lookup result, fields = fields of t+offset, OutOfRange iff t+offset leaves the range'),
          H('c02_derive_ord_is_lexicographic', cap=600, playback=True, meaning='derive(Ord/Eq) of UtcDateTime is lexicographic on the field tuple'),
          H('c14_search_entries_leap1_norule_n1', cap=1500, meaning='every entry DateTime::find_n hands out on zones with <= 1 transition, one leap-second record, no trailing rule (thorough: + Fixed rule): valid results carry the searched fields and unix_time + offset = their civil count; gap entries are the (packed) fields of the transition instant on either clock')]
    ck.stubs += ['S_civil / S_pack in c14_search_entries_leap1_norule_n1 (as in C05)']
    if not quick:
        hs.append(H('c14_search_entries_leap1_fixed_n1', cap=3600, meaning='same with a trailing rule none or Fixed(any)'))
    def on_fail(B, h):
        if h.name == 'c03_plumb':
            import c03
            c03.replay_plumb(ck, B, h)
        elif h.name.startswith('c14_search_entries'):
            kprop.replay_search_failure(ck, B, h, 1)
        elif h.playback_ok:
            kprop.playback_violation(ck, B, h)
        else:
            ck.inconclusive.append(f'{h.name} FAILED: {h.failed_checks[:4]} (no native replay; unresolved)')
    kprop.run_harnesses(ck, hs, on_fail=on_fail)
    A = EngineA(ck, unwind={'from_timespec': 12})
    ex = A.ex
    E_ = A.mir.enums
    nat = common.Native()
    y, mo, d, h, mi, s = I('y', 'i32'), I('mo', 'u8'), I('d', 'u8'), I('h', 'u8'), I('mi', 'u8'), I('s', 'u8')
    ns = I('ns', 'u32')
    off = I('off', 'i32')
    assume(CMP('>', off, I32[0]))
    lt = {'ut_offset': off, 'is_dst': B('isdst'), 'time_zone_designation': {'$d': I('dz'), '$v': {'Some': [{'bytes': [I(f'zb{i}', 'u8') for i in range(8)]}]}}}
    assume(CMP('<=', 0, lt['time_zone_designation']['$d']), CMP('<=', lt['time_zone_designation']['$d'], 1))
    getv = [y, mo, d, h, mi, s, ns, off]

    def rp_new(m):
        a = [m.get(k, dv) for k, dv in (('y', 2000), ('mo', 1), ('d', 1), ('h', 0), ('mi', 0), ('s', 0), ('ns', 0))]
        o_ = m.get('off', 0)
        cmd = 'dt_new ' + ' '.join(map(str, a)) + f' {o_} 0 -'
        for o in nat.both([cmd])[0]:
            why = judge_dt_new(o, a, o_)
            if why:
                return why, {'cmd': cmd, 'args': a, 'off': o_}
    r = ex.call('DateTime::new', [y, mo, d, h, mi, s, ns, lt])
    ok = CMP('=', r['$d'], 0)
    valid = AND(valid_fields(y, mo, d, h, mi, s, 60), CMP('<', ns, 10**9))
    u = ex.call('unix_time', [y, mo, d, h, mi, s], g=valid, sigpart='(_1: i32, _2: u8')
    inst = ARI('-', u, off)
    A.claim('new:accept_iff_real_date_and_instant_in_range', NOT(IFF(ok, AND(valid, CMP('<=', calref.MIN_T, inst), CMP('<=', inst, calref.MAX_T)))), get=getv, replay=rp_new,
            meaning='DateTime::new accepts <=> fields are a real date-time and unix_time(fields) - offset lies in [MIN, MAX]')
    f = r['$v']['Ok'][0]
    A.claim('new:invariant_and_copies', AND(ok, NOT(AND(CMP('=', f['unix_time'], inst), veq(f['local_time_type'], lt), *[CMP('=', f[k], v) for k, v in (('year', y), ('month', mo), ('month_day', d), ('hour', h), ('minute', mi), ('second', s), ('nanoseconds', ns))]))),
            get=getv, replay=rp_new, meaning='on Ok: unix_time = unix_time(fields) - offset, fields / nanoseconds / local time type copied')
    err = r['$v']['Err'][0]
    A.claim('new:error_kind', AND(NOT(ok), NOT(ITE(valid, is_variant(err, E_, 'TzError', 'OutOfRange'), is_variant(err, E_, 'TzError', 'DateTime'), 'Bool'))), get=getv, replay=lambda m: None,
            meaning='invalid fields -> DateTime error; valid fields but instant out of range -> OutOfRange')
    def rp_local(m):
        tv, ov, nv = m.get('t', 0), m.get('off', 0), m.get('ns', 0)
        cmd = f'dt_local {tv} {nv} {ov} 0 -'
        w = tv + ov
        for o in nat.both([cmd])[0]:
            if o.startswith('panic'):
                return f'from_timespec_and_local({tv},{nv},offset {ov}) panics', {'cmd': cmd, 'kind': 'local', 't': tv, 'off': ov, 'ns': nv}
            inr = calref.MIN_T <= w <= calref.MAX_T
            if o.startswith('ok') != inr:
                return (f'from_timespec_and_local({tv},{nv},offset {ov}) -> {o.split()[0]} although unix_time + offset = {w} is {"inside" if inr else "outside"} the supported range', {'cmd': cmd, 'kind': 'local', 't': tv, 'off': ov, 'ns': nv})
            if inr:
                f_ = [int(x) for x in o.split()[1:10]]
                if tuple(f_[:6]) != calref.gmtime(w)[:6] or f_[6] != nv or f_[7] != tv or f_[8] != ov:
                    return (f'from_timespec_and_local({tv},{nv},offset {ov}) = fields {f_[:6]} unix {f_[7]}; the fields of t+offset are {calref.gmtime(w)[:6]}', {'cmd': cmd, 'kind': 'local', 't': tv, 'off': ov, 'ns': nv})
        return None
    # from_timespec_and_local
    t = I('t', 'i64')
    rl = ex.call('DateTime::from_timespec_and_local', [t, ns, lt])
    w = ARI('+', t, off)
    g = ex.call('UtcDateTime::from_timespec', [w, ns], g=inrange(w, 'i64'))
    okl = CMP('=', rl['$d'], 0)
    A.claim('local:err_iff_sum_overflows_or_gmtime_refuses', NOT(IFF(okl, AND(inrange(w, 'i64'), CMP('=', g['$d'], 0)))), get=[t, off, ns], replay=rp_local)
    fl = rl['$v']['Ok'][0]
    gf = g['$v']['Ok'][0]
    A.claim('local:fields_are_gmtime_of_t_plus_offset', AND(okl, NOT(AND(CMP('=', fl['unix_time'], t), veq(fl['local_time_type'], lt), *[CMP('=', fl[k], gf[k]) for k in ('year', 'month', 'month_day', 'hour', 'minute', 'second', 'nanoseconds')]))),
            get=[t, off, ns], replay=rp_local, meaning='from_timespec_and_local: fields = from_timespec(t+offset) fields, unix_time = t, type copied (with C01: the invariant)')
    A.claim('local:ok_iff_sum_in_range', NOT(IFF(okl, AND(CMP('<=', calref.MIN_T, w), CMP('<=', w, calref.MAX_T)))), get=[t, off, ns], replay=rp_local)
    A.claim('local:err_is_out_of_range', AND(NOT(okl), NOT(is_variant(rl['$v']['Err'][0], E_, 'TzError', 'OutOfRange'))), replay=rp_local)
    # invariant through unix_time: unix_time(fields of result) = t + offset  (second < 60 there)
    ub = ex.call('unix_time', [fl['year'], fl['month'], fl['month_day'], fl['hour'], fl['minute'], fl['second']], g=okl, sigpart='(_1: i32, _2: u8')
    A.claim('local:invariant_unix_time_of_fields', AND(okl, NOT(CMP('=', ub, w))), get=[t, off, ns], required=not quick, cap=(120 if quick else 1800), replay=rp_local,
            meaning='unix_time(fields) = unix_time + offset for values built by from_timespec_and_local (same query as C01.inverse_of_timegm through this constructor)')
    # getters
    A.claim('getters', AND(ok, NOT(AND(CMP('=', ex.call('DateTime::unix_time', [f], g=ok), f['unix_time']), veq(ex.call('DateTime::local_time_type', [f], g=ok), f['local_time_type'])))), replay=lambda m: None)
    A.claim('vac_new_ok', ok, expect='sat', kind='vacuity')
    A.claim('vac_new_out_of_range', AND(NOT(ok), valid), expect='sat', kind='vacuity')
    A.panic_obligations('no_panic_overflow(the "Overflow is not possible" subtraction)', get=getv + [t], replay=rp_new)
    # translator validation
    cx = A.concrete()
    vec = []
    for _ in range(300 if quick else 1500):
        yy = ck.rng.choice([I32[0], I32[1], 1970, 2000, ck.rng.randrange(I32[0], I32[1])])
        vec.append(([yy, ck.rng.randrange(0, 14), ck.rng.randrange(0, 33), ck.rng.randrange(0, 25), ck.rng.randrange(0, 61), ck.rng.randrange(0, 62), ck.rng.choice([0, 10**9 - 1, 10**9])],
                    ck.rng.choice([0, 3600, -3600, 2**31 - 1, -2**31 + 1, ck.rng.randrange(-100000, 100000)])))
    outs = nat.both(['dt_new ' + ' '.join(map(str, a)) + f' {o} 0 -' for a, o in vec])
    for (a, o), (dv, rl_) in zip(vec, outs):
        rr = cx.call('DateTime::new', a + [{'ut_offset': o, 'is_dst': False, 'time_zone_designation': {'$d': 0, '$v': {}}}])
        enc_ok = rr['$d'] == 0
        if dv != rl_ or dv.startswith('ok') != enc_ok or (enc_ok and int(dv.split()[8]) != rr['$v']['Ok'][0]['unix_time']):
            ck.inconclusive.append(f'translator validation mismatch DateTime::new{a} off {o}: encoder ok={enc_ok} native {dv!r}/{rl_!r}')
            break
        why = judge_dt_new(dv, a, o)
        if why:
            ck.violation(why, {'cmd': 'dt_new ' + ' '.join(map(str, a)) + f' {o} 0 -', 'args': a, 'off': o})
            break
        ck.validated += 1
    qs = A.decide(cap=300 if quick else 1800)
    A.settle(qs)
    ck.functions += ['DateTime::from_timespec', 'DateTime::project', 'UtcDateTime::project (same path)', 'PartialEq/PartialOrd for DateTime']
    ck.explanation = ('Invariant per constructor: DateTime::new and from_timespec_and_local on the MIR for all inputs; from_timespec/project and search results (C05/C06 harnesses assert unix_time+offset = c and the searched fields) '
                      'by Kani; equality/ordering on arbitrary literals by Kani.')


def replay(ck, case):
    if case['case'].get('kind') == 'kani-playback':
        return kprop.replay_playback(ck, case)
    c = case['case']
    if c.get('kind') in ('normals', 'gaps', 'order', 'panic', 'stale-buffer'):
        import c05
        return c05.replay(ck, case)
    nat = common.Native()
    out = nat.both([c['cmd']])[0]
    print(out)
    if c.get('kind') == 'local':
        w = c['t'] + c['off']
        bad = any(o.startswith('panic') or (o.startswith('ok') != (calref.MIN_T <= w <= calref.MAX_T)) for o in out)
        print('violates:', bad)
        return 1 if bad else 0
    if c.get('kind') == 'plumb':
        return 1 if any(not o.startswith(c['want']) for o in out) else 0
    why = judge_dt_new(out[0], c['args'], c['off']) or judge_dt_new(out[1], c['args'], c['off'])
    print('violates:', why)
    return 1 if why else 0
