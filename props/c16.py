"""C16 - total nanoseconds <-> (seconds, nanoseconds): exact, floor-based.  Engine A (MIR -> SMT Int, cvc5)."""
import common
from enga import *

NS = 10**9
I64 = rng('i64')
MIN_T, MAX_T = -67768100567971200, 67767976233532799


def veq(a, b):
    if isinstance(a, dict) and isinstance(b, dict):
        if '$d' in a:
            return AND(EQ(a['$d'], b['$d']), *[veq(a['$v'][k], b['$v'][k]) for k in a['$v'] if k in b['$v']])
        return AND(*[veq(a[k], b[k]) for k in a if k in b])
    if isinstance(a, list) and isinstance(b, list):
        return AND(*[veq(x, y) for x, y in zip(a, b)])
    return EQ(a, b)


def spec_split(n):
    return n // NS, n % NS


def judge(native, n):
    """does the native answer for total nanoseconds n break the property? (independent python arithmetic)"""
    s, r = spec_split(n)
    inr = I64[0] <= s <= I64[1]
    if native.startswith('panic'):
        return True, 'panic'
    if native.startswith('ok'):
        a, b = [int(x) for x in native.split()[1:3]]
        if not inr:
            return True, f'accepted although seconds {s} do not fit i64'
        if (a, b) != (s, r):
            return True, f'split ({a},{b}) != floor split ({s},{r})'
        return False, ''
    if inr:
        return True, f'refused although seconds {s} fit i64'
    return False, ''


def run(ck):
    A = EngineA(ck)
    ex = A.ex
    ck.bounds += ['none: all i128 total-nanosecond counts, all (i64,u32) pairs; no loops in the encoded functions']
    ck.trusted += ['rustc MIR (pinned nightly) represents the source', 'MIR->SMT encoder (validated against the native build on this run)', 'cvc5 1.0.3 (z3 4.15 second opinion)',
                   'model of i128::div_euclid/rem_euclid as floor division/modulo for the positive constant divisor 10^9']
    ck.assumptions += ['core::i128::div_euclid / rem_euclid have their documented Euclidean semantics']
    n = I('n', 'i128')
    r = ex.call('total_nanoseconds_to_timespec', [n])
    ok = CMP('=', r['$d'], 0)
    s_, ns_ = r['$v']['Ok'][0]
    A.claim('split_exact', AND(ok, NOT(AND(CMP('=', n, ARI('+', ARI('*', s_, NS), ns_)), CMP('<=', 0, ns_), CMP('<', ns_, NS)))), get=[n, s_, ns_],
            meaning='Ok((s,r)) but not (n = s*10^9 + r and 0 <= r < 10^9)')
    inr = AND(CMP('<=', I64[0] * NS, n), CMP('<=', n, I64[1] * NS + NS - 1))
    A.claim('ok_iff_seconds_fit', NOT(IFF(ok, inr)), get=[n], meaning='accepted <=> floor(n/10^9) fits i64 fails')
    A.claim('err_is_out_of_range', AND(NOT(ok), NOT(is_variant(r['$v']['Err'][0], A.mir.enums, 'TzError', 'OutOfRange'))), meaning='refusal kind is not OutOfRange')
    A.claim('vac_ok', ok, expect='sat', kind='vacuity')
    A.claim('vac_err', NOT(ok), expect='sat', kind='vacuity')
    s = I('s', 'i64')
    q = I('q', 'u32')
    tot = ex.call('nanoseconds_since_unix_epoch', [s, q])
    A.claim('recombine_exact', NOT(CMP('=', tot, ARI('+', ARI('*', s, NS), q))), get=[s, q], meaning='nanoseconds_since_unix_epoch(s,q) != s*10^9+q')
    # constructors from total nanoseconds = constructors from the split pair (same real callee, memoised terms)
    g = ex.call('UtcDateTime::from_timespec', [s_, ns_], g=ok)
    u = ex.call('UtcDateTime::from_total_nanoseconds', [n])
    A.claim('utc_from_total_equals_from_pair', NOT(AND(IMP(ok, veq(u, g)), IMP(NOT(ok), AND(CMP('=', u['$d'], 1), is_variant(u['$v']['Err'][0], A.mir.enums, 'TzError', 'OutOfRange'))))),
            meaning='UtcDateTime::from_total_nanoseconds(n) differs from from_timespec(split(n))')
    off = I('off', 'i32')
    lt = {'ut_offset': off, 'is_dst': B('isdst'), 'time_zone_designation': {'$d': 0, '$v': {}}}
    assume(CMP('>', off, rng('i32')[0]))
    dl = ex.call('DateTime::from_timespec_and_local', [s_, ns_, lt], g=ok)
    dt = ex.call('DateTime::from_total_nanoseconds_and_local', [n, lt])
    A.claim('dt_from_total_equals_from_pair', NOT(AND(IMP(ok, veq(dt, dl)), IMP(NOT(ok), CMP('=', dt['$d'], 1)))), meaning='DateTime::from_total_nanoseconds_and_local differs from the pair constructor')
    # round trip: total_nanoseconds(from_total_nanoseconds_and_local(n)) = n on success (DateTime stores the instant)
    dok = CMP('=', dt['$d'], 0)
    back = ex.call('DateTime::total_nanoseconds', [dt['$v']['Ok'][0]], g=dok)
    A.claim('dt_total_roundtrip', AND(dok, NOT(CMP('=', back, n))), get=[n, off], meaning='DateTime: total_nanoseconds(from_total_nanoseconds_and_local(n)) != n')
    A.claim('vac_dt_ok', dok, expect='sat', kind='vacuity')
    # UtcDateTime: total_nanoseconds(x) = unix_time(fields)*10^9 + ns  (with C01: unix_time(from_timespec(t)) = t)
    uok = CMP('=', u['$d'], 0)
    uval = u['$v']['Ok'][0]
    ub = ex.call('UtcDateTime::total_nanoseconds', [uval], g=uok)
    ut = ex.call('UtcDateTime::unix_time', [uval], g=uok)
    A.claim('utc_total_is_unix_time_times_1e9_plus_ns', AND(uok, NOT(CMP('=', ub, ARI('+', ARI('*', ut, NS), ns_)))), meaning='UtcDateTime::total_nanoseconds != unix_time()*10^9 + nanoseconds')
    # full round trip for UtcDateTime (uses the whole gmtime/timegm encoding: thorough, or optional in quick)
    A.claim('utc_total_roundtrip', AND(uok, NOT(CMP('=', ub, n))), get=[n], required=(ck.tier == 'thorough'), cap=(100 if ck.tier == 'quick' else 1800),
            meaning='UtcDateTime: total_nanoseconds(from_total_nanoseconds(n)) != n')
    # nanoseconds >= 10^9 refused wherever fields are validated
    y, mo, d, h, mi, se = I('y', 'i32'), I('mo', 'u8'), I('d', 'u8'), I('h', 'u8'), I('mi', 'u8'), I('se', 'u8')
    nn = I('nn', 'u32')
    c = ex.call('check_date_time_inputs', [y, mo, d, h, mi, se, nn])
    A.claim('ns_ge_1e9_refused_by_field_check', AND(CMP('=', c['$d'], 0), CMP('>=', nn, NS)), get=[nn])
    un = ex.call('UtcDateTime::new', [y, mo, d, h, mi, se, nn])
    A.claim('ns_ge_1e9_refused_by_utc_new', AND(CMP('=', un['$d'], 0), CMP('>=', nn, NS)), get=[nn])
    dn = ex.call('DateTime::new', [y, mo, d, h, mi, se, nn, lt])
    A.claim('ns_ge_1e9_refused_by_datetime_new', AND(CMP('=', dn['$d'], 0), CMP('>=', nn, NS)), get=[nn])
    A.panic_obligations('no_panic_overflow_in_encoded_functions')
    ck.stubs += []
    # ---- translator validation: concrete runs of the interpreter vs the native build
    nat = common.Native()
    vec = [0, 1, -1, NS, -NS, NS - 1, -NS + 1, -NS - 1, I64[1] * NS, I64[1] * NS + NS - 1, I64[1] * NS + NS, I64[0] * NS, I64[0] * NS - 1, rng('i128')[0], rng('i128')[1],
           MAX_T * NS + NS - 1, MAX_T * NS + NS, MIN_T * NS, MIN_T * NS - 1]
    for _ in range(400 if ck.tier == 'quick' else 2000):
        k = ck.rng.choice([1, 20, 40, 64, 90, 100, 127])
        vec.append(ck.rng.randrange(-(1 << k), 1 << k))
    cx = A.concrete()
    outs = nat.both([f'ns_split {v}' for v in vec])
    bad = 0
    for v, (dv, rl) in zip(vec, outs):
        rr = cx.call('total_nanoseconds_to_timespec', [v])
        enc = f'ok {rr["$v"]["Ok"][0][0]} {rr["$v"]["Ok"][0][1]}' if rr['$d'] == 0 else 'err OutOfRange'
        if dv != rl or dv != enc:
            bad += 1
            ck.inconclusive.append(f'translator validation mismatch at n={v}: encoder {enc!r} native dev {dv!r} release {rl!r}')
            break
        viol, why = judge(dv, v)
        if viol:
            ck.violation(f'total_nanoseconds_to_timespec({v}): {why}; native says {dv!r}', {'cmd': f'ns_split {v}', 'n': v})
            break
    ck.validated += len(vec) - bad
    qs = A.decide()
    zone_variant(ck)
    for q in qs:
        if q.kind in ('claim', 'panic-obligations') and q.verdict == 'sat':
            handle_sat(ck, A, nat, q)
        if q.kind == 'vacuity' and q.verdict == 'unsat':
            ck.inconclusive.append(f'vacuity twin {q.name} is unsatisfiable: the claim it guards is vacuous')
    ck.samples += [{'query': q.name, 'meaning': q.meaning, 'verdict': q.verdict, 'seconds': round(q.secs, 2)} for q in qs if q.kind == 'claim'][:8]
    ck.explanation = ('Bounded symbolic checking with no bound beyond the machine types: the real MIR of the listed functions is encoded over '
                      'mathematical integers with every overflow/cast/division site as an obligation; each claim is the negated property and must be UNSAT.')


def want_localtime(z, s, r):
    """what DateTime::from_timespec(s, r, zone) must print (python references only)"""
    import calref
    l = z.lookup(s)
    if l is None:
        return 'err'
    w = s + l[0]
    if not (calref.MIN_T <= w <= calref.MAX_T):
        return 'err'
    return 'ok ' + ' '.join(map(str, calref.gmtime(w)[:6])) + f' {r} {s} {l[0]} {l[1]} -'


def zone_variant(ck):
    """Engine B: DateTime::from_total_nanoseconds(n, zone) for every i128 count with |seconds| < 2^70 and every table zone of the bound (the variant that
    takes a zone cannot be encoded by Engine A: slices, binary search)"""
    import engb, kprop
    from engb import H
    ck.bounds += ['c16_total_with_zone: zones with <= 2 transitions at arbitrary i64 times, 3 types with arbitrary i32 offsets, rule none or Fixed(any), no leap table; every i128 count with |seconds| < 2^70']
    ck.stubs += ['S_split in c16_total_with_zone: total_nanoseconds_to_timespec := its contract (unique floor split, OutOfRange iff seconds do not fit i64) - discharged by split_exact / ok_iff_seconds_fit / err_is_out_of_range of this check for all i128',
                 'S_pack: UtcDateTime::from_timespec := range gate + injective packing (C01); S_unreach for DST-rule arithmetic']
    h = H('c16_total_with_zone', cap=1500, meaning='DateTime::from_total_nanoseconds(n, zone) = DateTime::from_timespec(floor(n/10^9), n mod 10^9, zone): same instant, nanoseconds, local time type and fields, same error; total_nanoseconds() gives n back')
    B = engb.EngineB(ck)
    B.run([h])
    ck.samples.append({'harness': h.name, 'verdict': h.verdict, 'meaning': h.meaning, 'seconds': round(h.secs, 1)})
    if h.verdict != 'FAILED':
        return
    vecs = B.playback(h)
    if not vecs:
        ck.inconclusive.append(f'{h.name} FAILED ({h.failed_checks[:3]}); concrete playback produced no values')
        return
    z, m = kprop.decode_zone(vecs, 2, with_c=False)
    z.leaps = []
    k = len(kprop.zone_layout(2)[1:]) - (0 if m.get('has_rule') else 2)
    if len(vecs) <= k + 1:
        ck.inconclusive.append(f'{h.name} FAILED; playback too short to decode the count')
        return
    n = engb.le_int(vecs[k], True) * NS + engb.le_int(vecs[k + 1], True)   # the harness builds the count from its floor split (s, r)
    nat = common.Native()
    # the solver's count and, since the stubbed split lets CBMC pick any failing count, its neighbours around the second boundary
    cands = [n, n - 1, n + 1, n - (n % NS) - 1, n - (n % NS)]
    for (tt, _) in z.tr:   # the decoded zone's own transition instants, one nanosecond either side (where a lookup on a mis-rounded second shows)
        cands += [tt * NS - 1, tt * NS, tt * NS + 1]
    for nn in cands:
        s_, r_ = spec_split(nn)
        cmd = f'localtime_total {z.cmd()} {nn}'
        # seconds that do not fit i64: refused as OutOfRange whatever the zone says about the (truncated) instant
        want = want_localtime(z, s_, r_) if I64[0] <= s_ <= I64[1] else 'err OutOfRange'
        for o in nat.both([cmd])[0]:
            if o.startswith('err zone') or o.startswith('err parse'):
                break
            if (want == 'err OutOfRange' and o != want) or (want == 'err') != o.startswith('err') or (not want.startswith('err') and not (o.startswith(want + ' ') and o.endswith(f'total={nn}'))):
                ck.violation(f'{h.name}: `{cmd}` gives {o!r}; from_timespec on the floor split ({s_}, {r_}) prescribes {want!r}', {'cmd': cmd, 'want': want, 'total': nn, 'kind': 'zone-total'})
                return
    ck.inconclusive.append(f'{h.name} FAILED ({h.failed_checks[:2]}) but the decoded counterexample (zone {z.cmd()}, n={n}) does not reproduce natively')


def handle_sat(ck, A, nat, q):
    m = q.model
    cases = []
    if 'n' in m:
        cases.append(m['n'])
    if 's' in m and 'q' in m:
        nv = nat.both([f'ns_join {m["s"]} {m["q"]}'])[0]
        want = m['s'] * NS + m['q']
        if any(x != f'ok {want}' for x in nv):
            ck.violation(f'nanoseconds_since_unix_epoch({m["s"]},{m["q"]}) natively gives {nv} expected {want}', {'cmd': f'ns_join {m["s"]} {m["q"]}'})
            return
    for n in cases:
        dv, rl = nat.both([f'ns_split {n}'])[0]
        for nv in (dv, rl):
            viol, why = judge(nv, n)
            if viol:
                ck.violation(f'{q.name}: total nanoseconds {n}: {why}; native says {nv!r}', {'cmd': f'ns_split {n}', 'n': n})
                return
        a = nat.both([f'utc_total {n}', f'dt_total_local {n} {m.get("off", 0)} 0 -'])
        s, r = spec_split(n)
        b = nat.both([f'gmtime {s} {r}', f'dt_local {s} {r} {m.get("off", 0)} 0 -']) if I64[0] <= s <= I64[1] else None
        if b:
            for (x, y) in zip(a, b):
                ax = x[0].split()
                bx = y[0].split()
                if ax[0] != bx[0] or (ax[0] == 'ok' and ax[1:len(bx)] != bx[1:]):
                    ck.violation(f'{q.name}: constructor from total nanoseconds {n} gives {x[0]!r} but the pair constructor gives {y[0]!r}', {'cmd': f'utc_total {n}', 'n': n})
                    return
            ax = a[0][0].split()
            if ax[0] == 'ok' and int(ax[-1]) != n:
                ck.violation(f'{q.name}: total_nanoseconds(from_total_nanoseconds({n})) = {ax[-1]}', {'cmd': f'utc_total {n}', 'n': n})
                return
    if 'nn' in m and m['nn'] >= NS:
        line = f'chk {m.get("y", 2000)} {m.get("mo", 1)} {m.get("d", 1)} {m.get("h", 0)} {m.get("mi", 0)} {m.get("se", 0)} {m["nn"]}'
        nv = nat.both([line])[0]
        if any(x.startswith('ok') for x in nv):
            ck.violation(f'{q.name}: nanoseconds {m["nn"]} accepted: {nv}', {'cmd': line})
            return
    if q.kind == 'panic-obligations':
        for d, k, mm in A.bisect_obligations(q):
            ck.inconclusive.append(f'obligation reachable per solver: {d} ({k}) model {mm}')
    ck.inconclusive.append(f'{q.name}: solver model {m} does not reproduce on the native build (encoding or oracle problem)')


def replay(ck, case):
    nat = common.Native()
    c = case['case']
    out = nat.both([c['cmd']])[0]
    print('native (dev, release):', out)
    if c.get('kind') == 'zone-total':
        w = c['want']
        bad = any((w == 'err OutOfRange' and o != w) or (w == 'err') != o.startswith('err') or (not w.startswith('err') and not (o.startswith(w + ' ') and o.endswith(f"total={c['total']}"))) for o in out)
        print('want:', w, 'violates:', bad)
        return 1 if bad else 0
    if 'n' in c:
        v, why = judge(out[0], c['n'])
        print('violates:', v, why)
        return 1 if v else 0
    return 0
