"""C02 - timegm: calendar -> Unix time exact, monotone inverse; bad dates refused.  Engine A.
Oracle = the calendar's defining recurrences (not a closed formula): see DESIGN.md section 4, C02."""
import common, calref
from enga import *
from calspec import *

I32 = rng('i32')
KINDS = ['InvalidMonth', 'InvalidMonthDay', 'InvalidHour', 'InvalidMinute', 'InvalidSecond', 'InvalidNanoseconds']


def judge_timegm(native, y, m, d, h, mi, s, ns):
    if native.startswith('panic'):
        return f'UtcDateTime::new({y},{m},{d},{h},{mi},{s},{ns}) panics'
    v = calref.valid(y, m, d, h, mi, s, ns) and not (y == I32[1] and (m, d, h, mi, s) == (12, 31, 23, 59, 60))
    if native.startswith('ok'):
        if not v:
            return f'UtcDateTime::new({y},{m},{d},{h},{mi},{s},{ns}) accepted although it is not a real date-time (or is the excluded maximum)'
        u = int(native.split()[1])
        if u != calref.unix_time(y, m, d, h, mi, s):
            return f'unix_time of {y}-{m}-{d} {h}:{mi}:{s} is {u}, true count {calref.unix_time(y, m, d, h, mi, s)}'
        return None
    if v:
        return f'UtcDateTime::new({y},{m},{d},{h},{mi},{s},{ns}) refused ({native}) although it is a real date-time'
    return None


def run(ck):
    A = EngineA(ck, unwind={'from_timespec': 12})
    ex = A.ex
    E = A.mir.enums
    nat = common.Native()
    ck.bounds += ['none beyond the machine types: all i32 years, all u8 month/day/hour/minute/second, all u32 nanoseconds (month loop of from_timespec unrolled 12x for the inverse claim)']
    ck.trusted += ['rustc MIR (pinned nightly)', 'MIR->SMT encoder (validated natively on this run)', 'cvc5 (z3 second opinion)',
                   'meta-step: induction over the year from the solver-checked recurrences (a)-(d) pins days_since_unix_epoch to the true day count']
    U = lambda a, g=True: ex.call('unix_time', a, g=g, sigpart='(_1: i32, _2: u8')
    D = lambda a, g=True: ex.call('days_since_unix_epoch', a, g=g)
    y = I('y', 'i32')
    m = I('m')
    d = I('d')
    pre_md = [CMP('<=', 1, m), CMP('<=', m, 12), CMP('<=', 1, d), CMP('<=', d, 32)]

    def rp_days(mm):
        yy, mo, dd = mm.get('y', 1970), mm.get('m', 1), mm.get('d', 1)
        cands = [(yy, mo, dd), (yy, 1, 1), (yy + 1, 1, 1), (yy, mo, 1), (yy, min(mo + 1, 12), 1)]
        for (a, b, c) in cands:
            if not (I32[0] <= a <= I32[1] and 1 <= b <= 12 and 1 <= c <= 32):
                continue
            for o in nat.both([f'days {a} {b} {c}'])[0]:
                if o != f'ok {calref.days_from_civil(a, b, 1) + c - 1}':
                    return f'days_since_unix_epoch({a},{b},{c}) natively {o}, true day count {calref.days_from_civil(a, b, 1) + c - 1}', {'cmd': f'days {a} {b} {c}', 'kind': 'days', 'args': [a, b, c]}
        return None
    ynext = CMP('<', y, I32[1])
    A.claim('epoch_is_day_0', NOT(CMP('=', D([1970, 1, 1]), 0)), replay=rp_days, meaning='days(1970,1,1) != 0')
    A.claim('year_step', AND(ynext, NOT(CMP('=', ARI('-', D([ARI('+', y, 1), 1, 1], ynext), D([y, 1, 1])), ITE(sleap(y), 366, 365, 'Int')))), get=[y], replay=rp_days,
            meaning='days(y+1,1,1) - days(y,1,1) != 365 + [y is leap]')
    mm = CMP('<', m, 12)
    gmd = AND(*pre_md)
    A.claim('month_step', AND(gmd, mm, NOT(CMP('=', ARI('-', D([y, ARI('+', m, 1), 1], AND(gmd, mm)), D([y, m, 1], gmd)), sdim(y, m)))), get=[y, m], replay=rp_days,
            meaning='days(y,m+1,1) - days(y,m,1) != days in month m of y')
    A.claim('day_step', AND(gmd, NOT(CMP('=', D([y, m, d], gmd), ARI('+', D([y, m, 1], gmd), ARI('-', d, 1))))), get=[y, m, d], replay=rp_days, meaning='days(y,m,d) != days(y,m,1) + d - 1')

    def rp_leap(mm):
        yy = mm.get('y', 0)
        for o in nat.both([f'leap {yy}'])[0]:
            if o != f'ok {int(calref.is_leap(yy))}':
                return f'is_leap_year({yy}) natively {o}', {'cmd': f'leap {yy}', 'kind': 'leap', 'args': [yy]}
    A.claim('leap_rule', NOT(IFF(ex.call('is_leap_year', [y]), sleap(y))), get=[y], replay=rp_leap, meaning='is_leap_year differs from the Gregorian rule')
    # (f) unix_time = ((D*24+h)*60+mi)*60+s without overflow for EVERY field tuple of the types with month 1..12
    m8, d8, h, mi, s = I('m8', 'u8'), I('d8', 'u8'), I('h', 'u8'), I('mi', 'u8'), I('s', 'u8')
    ns = I('ns', 'u32')
    mok = AND(CMP('<=', 1, m8), CMP('<=', m8, 12))

    def rp_new(mm):
        a = [mm.get(k, dflt) for k, dflt in (('y', 1970), ('m8', 1), ('d8', 1), ('h', 0), ('mi', 0), ('s', 0), ('ns', 0))]
        for o in nat.both(['timegm ' + ' '.join(map(str, a))])[0]:
            why = judge_timegm(o, *a)
            if why:
                return why, {'cmd': 'timegm ' + ' '.join(map(str, a)), 'kind': 'timegm', 'args': a}
        if 1 <= a[1] <= 12:
            for o in nat.both(['utime ' + ' '.join(map(str, a[:6]))])[0]:
                want = ((calref.days_from_civil(a[0], a[1], 1) + a[2] - 1) * 24 + a[3]) * 3600 + a[4] * 60 + a[5]
                if o != f'ok {want}':
                    return f'unix_time{tuple(a[:6])} natively {o}, expected {want}', {'cmd': 'utime ' + ' '.join(map(str, a[:6])), 'kind': 'utime', 'args': a[:6]}
        return None
    n0 = len(M.C.obl)
    u = U([y, m8, d8, h, mi, s], mok)
    dd = D([y, m8, d8], mok)
    A.claim('unix_time_formula', AND(mok, NOT(CMP('=', u, ADD(ARI('*', ADD(ARI('*', ADD(ARI('*', dd, 24), h), 60), mi), 60), s)))), get=[y, m8, d8, h, mi, s], replay=rp_new,
            meaning='unix_time != ((days*24+h)*60+mi)*60+s')
    A.claim('second_60_is_next_minute', AND(mok, NOT(CMP('=', U([y, m8, d8, h, mi, 60], mok), ARI('+', U([y, m8, d8, h, mi, 59], mok), 1)))), get=[y, m8, d8, h, mi], replay=rp_new,
            meaning='second 60 is not one second after second 59')
    # acceptance
    r = ex.call('UtcDateTime::new', [y, m8, d8, h, mi, s, ns])
    ok = CMP('=', r['$d'], 0)
    valid = AND(valid_fields(y, m8, d8, h, mi, s, 60), CMP('<', ns, 10**9))
    excl = AND(CMP('=', y, I32[1]), CMP('=', m8, 12), CMP('=', d8, 31), CMP('=', h, 23), CMP('=', mi, 59), CMP('=', s, 60))
    A.claim('accept_iff_real_date', NOT(IFF(ok, AND(valid, NOT(excl)))), get=[y, m8, d8, h, mi, s, ns], replay=rp_new, meaning='UtcDateTime::new accepts <=> fields are a real date-time (s<=60) and not the excluded maximum')
    err = r['$v']['Err'][0]
    isdt = is_variant(err, E, 'TzError', 'DateTime')
    kind = err['$v']['DateTime'][0]['$d']
    viol = {'InvalidMonth': NOT(mok), 'InvalidMonthDay': NOT(AND(mok, CMP('<=', 1, d8), CMP('<=', d8, sdim(y, m8)))), 'InvalidHour': CMP('>', h, 23), 'InvalidMinute': CMP('>', mi, 59),
            'InvalidSecond': CMP('>', s, 60), 'InvalidNanoseconds': CMP('>=', ns, 10**9)}
    kind_ok = OR(AND(is_variant(err, E, 'TzError', 'OutOfRange'), excl), AND(isdt, OR(*[AND(CMP('=', kind, E['DateTimeError'][k]), viol[k]) for k in KINDS])))
    A.claim('error_names_a_violated_condition', AND(NOT(ok), NOT(kind_ok)), get=[y, m8, d8, h, mi, s, ns], replay=lambda mm: None, meaning='Err kind does not correspond to a violated condition')
    fld = r['$v']['Ok'][0]
    A.claim('fields_stored_unchanged', AND(ok, NOT(AND(*[CMP('=', fld[k], v) for k, v in (('year', y), ('month', m8), ('month_day', d8), ('hour', h), ('minute', mi), ('second', s), ('nanoseconds', ns))]))),
            replay=lambda mm: None)
    ug = ex.call('UtcDateTime::unix_time', [fld], g=ok)
    A.claim('getter_is_unix_time', AND(ok, NOT(CMP('=', ug, u))), replay=lambda mm: None)
    # (g) strictly monotone on valid tuples with s<60
    y2 = I('y2', 'i32')
    m2, d2, h2, mi2, s2 = I('m2', 'u8'), I('d2', 'u8'), I('h2', 'u8'), I('mi2', 'u8'), I('s2', 'u8')
    v1 = valid_fields(y, m8, d8, h, mi, s, 59)
    v2 = valid_fields(y2, m2, d2, h2, mi2, s2, 59)
    u2 = U([y2, m2, d2, h2, mi2, s2], v2)

    def rp_mono(mm):
        a = [mm.get(k, 0) for k in ('y', 'm8', 'd8', 'h', 'mi', 's')]
        b = [mm.get(k, 0) for k in ('y2', 'm2', 'd2', 'h2', 'mi2', 's2')]
        o = nat.both(['utime ' + ' '.join(map(str, a)), 'utime ' + ' '.join(map(str, b))])
        for k in (0, 1):
            ua, ub = int(o[0][k].split()[1]), int(o[1][k].split()[1])
            if a < b and not ua < ub:
                return f'{a} is earlier than {b} but unix_time {ua} >= {ub}', {'cmd': 'utime ' + ' '.join(map(str, a)), 'cmd2': 'utime ' + ' '.join(map(str, b)), 'kind': 'mono', 'args': [a, b]}
    A.claim('strictly_monotone', AND(v1, v2, lex_lt([y, m8, d8, h, mi, s], [y2, m2, d2, h2, mi2, s2]), NOT(CMP('<', u, u2))), get=[y, m8, d8, h, mi, s, y2, m2, d2, h2, mi2, s2], replay=rp_mono,
            meaning='two valid date-times (s<60), first lexicographically earlier, but unix_time not strictly smaller')
    # (i) calendar -> unix -> calendar is the identity (s<60): direct query (the reverse direction is C01.inverse_of_timegm)
    g = ex.call('UtcDateTime::from_timespec', [u, ns], g=v1)
    gf = g['$v']['Ok'][0]
    same = AND(CMP('=', g['$d'], 0), *[CMP('=', gf[k], v) for k, v in (('year', y), ('month', m8), ('month_day', d8), ('hour', h), ('minute', mi), ('second', s))])
    A.claim('gmtime_of_timegm_is_identity', AND(v1, NOT(same)), get=[y, m8, d8, h, mi, s], required=False, cap=(20 if ck.tier == 'quick' else 3000), replay=rp_new,
            meaning='from_timespec(unix_time(fields)) != fields for a valid date-time with s<60')
    A.claim('vac_ok', ok, expect='sat', kind='vacuity')
    A.claim('vac_feb29_accepted', AND(ok, CMP('=', m8, 2), CMP('=', d8, 29)), expect='sat', kind='vacuity')
    A.claim('vac_each_error', AND(NOT(ok), isdt, CMP('=', kind, E['DateTimeError']['InvalidMonthDay']), mok, CMP('>=', d8, 29)), expect='sat', kind='vacuity')
    A.panic_obligations('no_panic_overflow', get=[y, m8, d8, h, mi, s, ns, m, d], replay=rp_new, extra_pre=[])
    # ---- translator validation
    cx = A.concrete()
    vec = [(1970, 1, 1, 0, 0, 0, 0), (2000, 2, 29, 23, 59, 60, 999999999), (1900, 2, 29, 0, 0, 0, 0), (I32[0], 1, 1, 0, 0, 0, 0), (I32[1], 12, 31, 23, 59, 59, 0), (I32[1], 12, 31, 23, 59, 60, 0),
           (2001, 2, 29, 0, 0, 0, 0), (2024, 4, 31, 0, 0, 0, 0), (1, 0, 1, 0, 0, 0, 0), (1, 13, 1, 0, 0, 0, 0), (1, 1, 0, 0, 0, 0, 0), (1, 1, 1, 24, 0, 0, 0), (1, 1, 1, 0, 60, 0, 0), (1, 1, 1, 0, 0, 61, 0), (1, 1, 1, 0, 0, 0, 10**9)]
    for _ in range(600 if ck.tier == 'quick' else 3000):
        yy = ck.rng.choice([ck.rng.randrange(I32[0], I32[1]), ck.rng.randrange(1500, 2500), ck.rng.randrange(-500, 500) * 4])
        vec.append((yy, ck.rng.randrange(0, 14), ck.rng.randrange(0, 33), ck.rng.randrange(0, 26), ck.rng.randrange(0, 62), ck.rng.randrange(0, 63), ck.rng.choice([0, 999999999, 10**9])))
    outs = nat.both(['timegm ' + ' '.join(map(str, v)) for v in vec])
    for v, (dv, rl) in zip(vec, outs):
        rr = cx.call('UtcDateTime::new', list(v))
        if rr['$d'] == 0:
            uu = cx.call('UtcDateTime::unix_time', [rr['$v']['Ok'][0]])
            enc = f'ok {uu}'
            ok_same = dv.split()[:2] == enc.split()
        else:
            e = rr['$v']['Err'][0]
            inv = {v_: k for k, v_ in E['TzError'].items()}
            enc = 'err'
            ok_same = dv.startswith('err')
        if dv != rl or not ok_same:
            ck.inconclusive.append(f'translator validation mismatch at {v}: encoder {enc!r} native dev {dv!r} release {rl!r}')
            break
        why = judge_timegm(dv, *v)
        if why:
            ck.violation(why, {'cmd': 'timegm ' + ' '.join(map(str, v)), 'kind': 'timegm', 'args': list(v)})
            break
        ck.validated += 1
    qs = A.decide(cap=300 if ck.tier == 'quick' else 3000)
    A.settle(qs)
    # "later calendar date" as the crate itself orders UtcDateTime values: derive(Ord) must be the lexicographic order of
    # (year, month, day, hour, minute, second, nanoseconds) - the order for which strict monotonicity of unix_time is claimed above
    import kprop
    from engb import H
    ck.trusted.append('Kani 0.68 / CBMC 6.11 for the derive(Ord) harness')
    kprop.run_harnesses(ck, [H('c02_derive_ord_is_lexicographic', cap=600, playback=True, meaning='derive(Ord/Eq) of UtcDateTime is the lexicographic order on (year, month, month_day, hour, minute, second, nanoseconds) for two arbitrary values')])
    ck.explanation = ('days_since_unix_epoch is pinned to the true day count by solver-checked recurrences valid for every i32 year (epoch, year step, month step, day step, leap rule) and a '
                      'meta-level induction over the year; unix_time is its linear extension; calendar->unix->calendar identity follows from C01.inverse_of_timegm + strict monotonicity (injectivity) + totality, '
                      'and is additionally attempted as one direct query (optional: it times out in quick); acceptance, error kinds, strict monotonicity (hence injectivity) are claims over two fully symbolic tuples.')


def replay(ck, case):
    nat = common.Native()
    c = case['case']
    if c.get('kind') == 'kani-playback':
        import kprop
        return kprop.replay_playback(ck, case)
    out = nat.both([c['cmd']] + ([c['cmd2']] if 'cmd2' in c else []))
    print('native (dev, release):', out)
    k = c.get('kind')
    bad = None
    if k == 'timegm':
        bad = judge_timegm(out[0][0], *c['args']) or judge_timegm(out[0][1], *c['args'])
    elif k == 'days':
        a = c['args']
        bad = None if all(o == f'ok {calref.days_from_civil(a[0], a[1], 1) + a[2] - 1}' for o in out[0]) else 'wrong day count'
    elif k == 'leap':
        bad = None if all(o == f'ok {int(calref.is_leap(c["args"][0]))}' for o in out[0]) else 'wrong leap rule'
    elif k == 'utime':
        a = c['args']
        want = ((calref.days_from_civil(a[0], a[1], 1) + a[2] - 1) * 24 + a[3]) * 3600 + a[4] * 60 + a[5]
        bad = None if all(o == f'ok {want}' for o in out[0]) else 'wrong unix_time'
    elif k == 'mono':
        ua, ub = int(out[0][0].split()[1]), int(out[1][0].split()[1])
        bad = None if ua < ub else 'not monotone'
    print('violates:', bad)
    return 1 if bad else 0
