#!/usr/bin/env python3
"""setup_cmd: nothing persistent is built (every check rebuilds from /repo); verify the tools and syntax-check the framework."""
import subprocess, sys, os, py_compile, glob, shutil
HERE = os.path.dirname(os.path.abspath(__file__))
ok = True
for t in ('cvc5', 'z3-new', 'cargo', 'cargo-kani'):
    if not shutil.which(t):
        print('missing tool', t); ok = False
for f in glob.glob(os.path.join(HERE, 'lib/*.py')) + glob.glob(os.path.join(HERE, 'props/*.py')) + [os.path.join(HERE, 'check')]:
    try:
        py_compile.compile(f, doraise=True, cfile=os.devnull if False else None)
    except Exception as e:
        print('syntax error', f, e); ok = False
os.makedirs(os.path.join(HERE, 'evidence'), exist_ok=True)
print('setup ok' if ok else 'setup FAILED')
sys.exit(0 if ok else 1)
