#!/bin/bash
# usage: tools_kani.sh <harness> [extra cargo-kani args]  -- run one harness on a scratch overlay with full output (debugging aid)
h=$1; shift
d=/var/tmp/kdbg_$h
rm -rf $d; mkdir -p $d
python3 - <<PY
import sys; sys.path.insert(0,'/verif/lib'); import common
common.build_overlay('$d/ov', kani=True, replay=False, allow_unsafe=True)
PY
cd $d/ov && CARGO_NET_OFFLINE=true timeout ${CAP:-1800} cargo kani -Z stubbing --harness $h --target-dir $d/tgt "$@" > $d/out.log 2>&1
echo "exit=$?"; grep -E "VERIFICATION|Failed Checks|unwinding assertion|Verification Time|cover properties|^error" $d/out.log | head -20
rm -rf $d/tgt
