#!/usr/bin/env python3
"""renders seeded/*/meta.json as the markdown table of DESIGN.md 10.5"""
import json, glob, os
rows = []
for f in sorted(glob.glob('/verif/seeded/*/meta.json')):
    m = json.load(open(f))
    sid = m['seed']
    notes = (m.get('needs') or '').split('\n')
    change = next((l for l in notes if l.lower().startswith('change')), notes[0] if notes else '')[:230].replace('|', '/')
    det = ', '.join(f"{c} (exit {r['exit']}, {r['seconds']} s)" for c, r in m.get('checks', {}).items())
    rows.append(f"| `{sid}` | {m['property']} | {change} | {'yes' if m.get('confirmed') else 'NO'} | {det} |")
print('| seed | property | change (from the sub-agent\'s notes) | confirmed (suite passes, demo fails with / passes without) | quick checks run against it |')
print('|---|---|---|---|---|')
print('\n'.join(rows))
