#!/usr/bin/env python3
"""tools_seed.py <seed-id> <worktree> <property> [check ids...]
Confirms a seeded change produced by a sub-agent (compiles, unit tests pass with it, demo fails with it and passes without it),
stores it under /verif/seeded/<seed-id>/ and runs the given checks (default: the property's own) against /repo with the patch applied,
undoing it straight afterwards."""
import sys, os, subprocess, shutil, json, time
sid, wt, prop = sys.argv[1], sys.argv[2], sys.argv[3]
checks = sys.argv[4:] or [prop]
V = '/verif'
dst = f'{V}/seeded/{sid}'
os.makedirs(dst, exist_ok=True)
for f in ('patch.diff', 'demo.rs', 'notes.txt'):
    if os.path.exists(f'{wt}/seed_out/{f}'):
        shutil.copy(f'{wt}/seed_out/{f}', f'{dst}/{f}')
env = dict(os.environ, CARGO_NET_OFFLINE='true', CARGO_TARGET_DIR='/var/tmp/seedchk/target_' + sid)
shutil.rmtree('/var/tmp/seedchk/target_' + sid, ignore_errors=True)
scr = '/var/tmp/seedchk/src_' + sid
shutil.rmtree(scr, ignore_errors=True)
os.makedirs(scr)
for f in ('Cargo.toml', 'Cargo.lock', 'src'):
    (shutil.copytree if os.path.isdir(f'/repo/{f}') else shutil.copy)(f'/repo/{f}', f'{scr}/{f}')
os.makedirs(f'{scr}/tests')
shutil.copy(f'{dst}/demo.rs', f'{scr}/tests/demo.rs')
def run(cmd, cwd=scr):
    p = subprocess.run(cmd, shell=True, cwd=cwd, env=env, capture_output=True, text=True)
    return p.returncode, p.stdout + p.stderr
meta = {'seed': sid, 'property': prop, 'ran': []}
DF = os.environ.get('DEMO_FLAGS', '')
rc0, out0 = run(f'cargo test --offline {DF} --test demo 2>&1 | grep -E "^test result|^error(\\[|:)" | head -3')
meta['demo_without_change'] = out0.strip()
rc, out = run(f'git init -q . 2>/dev/null; git apply --unsafe-paths {dst}/patch.diff 2>&1 || patch -p1 < {dst}/patch.diff')
if 'error' in out.lower() and 'patch' not in out.lower():
    print('PATCH DID NOT APPLY', out); sys.exit(3)
run('find src -name "*.rs" | xargs touch')
rc1, out1 = run('(cargo test --offline --lib; cargo test --offline --doc) 2>&1 | grep -E "^test result|error(\\[|:)" | head -4')
meta['unit_tests_with_change'] = out1.strip()
rc2, out2 = run(f'cargo test --offline {DF} --test demo 2>&1 | grep -E "^test result|error(\\[|:)" | head -3')
meta['demo_with_change'] = out2.strip()
ok = ('ok.' in out0 and 'FAILED' not in out0) and ('FAILED' in out2) and ('FAILED' not in out1 and 'ok.' in out1)
meta['confirmed'] = ok
print(json.dumps({k: meta[k] for k in ('demo_without_change', 'unit_tests_with_change', 'demo_with_change', 'confirmed')}, indent=1))
shutil.rmtree(scr, ignore_errors=True)
shutil.rmtree('/var/tmp/seedchk/target_' + sid, ignore_errors=True)
if not ok:
    json.dump(meta, open(f'{dst}/meta.json', 'w'), indent=1)
    sys.exit(4)
# run the checks against the patched tree: /repo itself (git apply ... git checkout -- .), or - when /repo is in use by a long
# background run (SEED_SCRATCH=1) - a scratch copy of /repo's HEAD that the checks are pointed at through VERIF_REPO
res = {}
scratch_repo = None
if os.environ.get('SEED_SCRATCH'):
    scratch_repo = '/var/tmp/seedrepo_' + sid
    shutil.rmtree(scratch_repo, ignore_errors=True)
    os.makedirs(scratch_repo)
    subprocess.run(f'git -C /repo archive HEAD | tar -x -C {scratch_repo}; cp /repo/Cargo.lock {scratch_repo}/ 2>/dev/null; cd {scratch_repo} && git init -q . && git apply {dst}/patch.diff', shell=True, check=True)
    cenv = dict(os.environ, VERIF_REPO=scratch_repo, VERIF_EVIDENCE_DIR='/var/tmp/seed_evidence')
else:
    assert subprocess.run('git -C /repo status --porcelain', shell=True, capture_output=True, text=True).stdout.strip() == '', '/repo not clean'
    subprocess.run(f'git -C /repo apply {dst}/patch.diff', shell=True, check=True)
    cenv = dict(os.environ)
try:
    for c in checks:
        t0 = time.time()
        p = subprocess.run(f'./check {c} --tier ' + os.environ.get('SEED_TIER', 'quick'), shell=True, cwd=V, capture_output=True, text=True, env=cenv)
        lines = [l for l in p.stdout.split('\n') if l.startswith(('VIOLATION', 'KNOWN', 'INCONCLUSIVE', '[' + c))]
        res[c] = {'exit': p.returncode, 'seconds': round(time.time() - t0), 'lines': [l[:400] for l in lines[:6]]}
        viol = [l for l in p.stdout.split('\n') if l.startswith('  ') and 'VIOLATION' not in l and not l.startswith('  [')]
        res[c]['what'] = [v.strip()[:400] for v in viol[:3]]
        print(c, json.dumps(res[c], indent=1))
finally:
    if scratch_repo:
        shutil.rmtree(scratch_repo, ignore_errors=True)
    else:
        subprocess.run('git -C /repo checkout -- .', shell=True, check=True)
meta['run_against'] = 'scratch copy of /repo HEAD via VERIF_REPO' if scratch_repo else '/repo (git apply, then git checkout -- .)'
meta['checks'] = res
meta['detected_by'] = [c for c, r in res.items() if r['exit'] == 1]
meta['needs'] = open(f'{dst}/notes.txt').read()[:1500] if os.path.exists(f'{dst}/notes.txt') else ''
json.dump(meta, open(f'{dst}/meta.json', 'w'), indent=1)
print('DETECTED BY', meta['detected_by'])
