//! Native replay / oracle binary: runs the *real* tz-rs (overlay copy of /repo's working tree, built with
//! `--cfg verif_replay` so that private kernels are re-exported) on concrete cases, one command per line.
use std::io::{self, BufRead, Write};
use std::panic;

use tz::datetime::verif_replay as dtr;
use tz::datetime::{DateTime, FoundDateTimeKind, UtcDateTime};
use tz::timezone::verif_replay as tzr;
use tz::timezone::{
    AlternateTime, Julian0WithLeap, Julian1WithoutLeap, LeapSecond, LocalTimeType, MonthWeekDay, RuleDay, TimeZone, TimeZoneRef, TimeZoneSettings, Transition,
    TransitionRule,
};

struct Tok<'a> {
    v: Vec<&'a str>,
    i: usize,
}
impl<'a> Tok<'a> {
    fn s(&mut self) -> &'a str {
        let x = self.v.get(self.i).copied().unwrap_or("");
        self.i += 1;
        x
    }
    fn n<T: std::str::FromStr>(&mut self) -> T
    where
        T::Err: std::fmt::Debug,
    {
        self.s().parse::<T>().expect("bad number")
    }
}

fn unhex(s: &str) -> Vec<u8> {
    if s == "-" {
        return vec![];
    }
    (0..s.len() / 2).map(|i| u8::from_str_radix(&s[2 * i..2 * i + 2], 16).unwrap()).collect()
}
fn hex(b: &[u8]) -> String {
    if b.is_empty() {
        return "-".into();
    }
    b.iter().map(|x| format!("{:02x}", x)).collect()
}

fn ltt(t: &mut Tok) -> Result<LocalTimeType, String> {
    let off: i32 = t.n();
    let dst: u8 = t.n();
    let d = t.s();
    let name = unhex(d);
    LocalTimeType::new(off, dst != 0, if d == "-" { None } else { Some(&name) }).map_err(|e| format!("{:?}", e))
}
fn show_ltt(l: &LocalTimeType) -> String {
    format!("{} {} {}", l.ut_offset(), l.is_dst() as u8, hex(l.time_zone_designation().as_bytes()))
}
fn day(t: &mut Tok) -> Result<RuleDay, String> {
    match t.s() {
        "J" => Julian1WithoutLeap::new(t.n()).map(RuleDay::Julian1WithoutLeap).map_err(|e| format!("{:?}", e)),
        "Z" => Julian0WithLeap::new(t.n()).map(RuleDay::Julian0WithLeap).map_err(|e| format!("{:?}", e)),
        "M" => {
            let (m, w, d) = (t.n(), t.n(), t.n());
            MonthWeekDay::new(m, w, d).map(RuleDay::MonthWeekDay).map_err(|e| format!("{:?}", e))
        }
        x => Err(format!("bad day tag {}", x)),
    }
}
fn alt(t: &mut Tok) -> Result<AlternateTime, String> {
    let std = ltt(t)?;
    let dst = ltt(t)?;
    let d1 = day(t)?;
    let t1: i32 = t.n();
    let d2 = day(t)?;
    let t2: i32 = t.n();
    AlternateTime::new(std, dst, d1, t1, d2, t2).map_err(|e| format!("{:?}", e))
}
struct Z {
    tr: Vec<Transition>,
    ty: Vec<LocalTimeType>,
    ls: Vec<LeapSecond>,
    rule: Option<TransitionRule>,
}
fn zone(t: &mut Tok) -> Result<Z, String> {
    assert_eq!(t.s(), "T");
    let n: usize = t.n();
    let mut tr = vec![];
    for _ in 0..n {
        let (a, b) = (t.n(), t.n());
        tr.push(Transition::new(a, b));
    }
    assert_eq!(t.s(), "L");
    let k: usize = t.n();
    let mut ty = vec![];
    for _ in 0..k {
        ty.push(ltt(t)?);
    }
    assert_eq!(t.s(), "S");
    let m: usize = t.n();
    let mut ls = vec![];
    for _ in 0..m {
        let (a, b) = (t.n(), t.n());
        ls.push(LeapSecond::new(a, b));
    }
    assert_eq!(t.s(), "R");
    let rule = match t.s() {
        "none" => None,
        "fixed" => Some(TransitionRule::Fixed(ltt(t)?)),
        "alt" => Some(TransitionRule::Alternate(alt(t)?)),
        x => return Err(format!("bad rule tag {}", x)),
    };
    Ok(Z { tr, ty, ls, rule })
}
fn show_dt(d: &DateTime) -> String {
    format!(
        "{} {} {} {} {} {} {} {} {} {} {}",
        d.year(),
        d.month(),
        d.month_day(),
        d.hour(),
        d.minute(),
        d.second(),
        d.nanoseconds(),
        d.unix_time(),
        show_ltt(d.local_time_type()),
        d.week_day(),
        d.year_day()
    )
}
fn show_utc(u: &UtcDateTime) -> String {
    format!("{} {} {} {} {} {} {} {} {}", u.year(), u.month(), u.month_day(), u.hour(), u.minute(), u.second(), u.nanoseconds(), u.week_day(), u.year_day())
}
fn res<T, E: std::fmt::Debug>(r: Result<T, E>, f: impl Fn(&T) -> String) -> String {
    match r {
        Ok(x) => format!("ok {}", f(&x)),
        Err(e) => format!("err {}", format!("{:?}", e).replace(' ', "").replace('"', "")),
    }
}

thread_local! {
    static VFS_RESP: std::cell::RefCell<Vec<u8>> = std::cell::RefCell::new(vec![]);
    static VFS_LOG: std::cell::RefCell<Vec<String>> = std::cell::RefCell::new(vec![]);
}
fn vfs_read(path: &str) -> Result<Vec<u8>, Box<dyn std::error::Error + Send + Sync + 'static>> {
    let n = VFS_LOG.with(|l| {
        l.borrow_mut().push(path.to_string());
        l.borrow().len() - 1
    });
    let r = VFS_RESP.with(|r| r.borrow().get(n).copied().unwrap_or(2));
    match r {
        0 => {
            let f = minimal_tzif(b"", b'2');
            Ok(f[..54].iter().copied().map(|b| b).collect::<Vec<u8>>()).map(|mut v: Vec<u8>| {
                v[4] = 0;
                v
            })
        }
        1 => Ok(b"garbage, not a TZif file".to_vec()),
        _ => Err("unreadable".into()),
    }
}

fn minimal_tzif(footer: &[u8], version: u8) -> Vec<u8> {
    // v1 block: 0 transitions, 1 type (UTC), charcnt 4 ("UTC\0"); then the same as v2+ block, then footer "\n<footer>\n"
    let mut out = vec![];
    for pass in 0..2 {
        out.extend_from_slice(b"TZif");
        out.push(version);
        out.extend_from_slice(&[0u8; 15]);
        for c in [0u32, 0, 0, 0, 1, 4] {
            out.extend_from_slice(&c.to_be_bytes());
        }
        out.extend_from_slice(&[0, 0, 0, 0, 0, 0]);
        out.extend_from_slice(b"UTC\0");
        let _ = pass;
    }
    out.push(b'\n');
    out.extend_from_slice(footer);
    out.push(b'\n');
    out
}

fn run(line: &str) -> String {
    let mut t = Tok { v: line.split_whitespace().collect(), i: 0 };
    match t.s() {
        "gmtime" => res(UtcDateTime::from_timespec(t.n(), t.n()), show_utc),
        "timegm" => {
            let r = UtcDateTime::new(t.n(), t.n(), t.n(), t.n(), t.n(), t.n(), t.n());
            res(r, |u| format!("{} {} {} {}", u.unix_time(), u.week_day(), u.year_day(), u.total_nanoseconds()))
        }
        "days" => format!("ok {}", dtr::days_since_unix_epoch_(t.n(), t.n(), t.n())),
        "utime" => format!("ok {}", dtr::unix_time_(t.n(), t.n(), t.n(), t.n(), t.n(), t.n())),
        "leap" => format!("ok {}", dtr::is_leap_year_(t.n()) as u8),
        "wday" => format!("ok {}", dtr::week_day_(t.n(), t.n(), t.n())),
        "yday" => format!("ok {}", dtr::year_day_(t.n(), t.n(), t.n())),
        "ns_split" => res(dtr::total_nanoseconds_to_timespec_(t.n()), |x| format!("{} {}", x.0, x.1)),
        "ns_join" => format!("ok {}", dtr::nanoseconds_since_unix_epoch_(t.n(), t.n())),
        "utc_total" => res(UtcDateTime::from_total_nanoseconds(t.n()), |u| format!("{} {} {}", show_utc(u), u.unix_time(), u.total_nanoseconds())),
        "chk" => res(dtr::check_date_time_inputs_(t.n(), t.n(), t.n(), t.n(), t.n(), t.n(), t.n()), |_| String::new()),
        "dt_new" => {
            let (y, mo, d, h, mi, s, ns) = (t.n(), t.n(), t.n(), t.n(), t.n(), t.n(), t.n());
            match ltt(&mut t) {
                Ok(l) => res(DateTime::new(y, mo, d, h, mi, s, ns, l), |d| format!("{} {}", show_dt(d), d.total_nanoseconds())),
                Err(e) => format!("err ltt:{}", e),
            }
        }
        "dt_local" => {
            let (ut, ns) = (t.n(), t.n());
            match ltt(&mut t) {
                Ok(l) => res(DateTime::from_timespec_and_local(ut, ns, l), show_dt),
                Err(e) => format!("err ltt:{}", e),
            }
        }
        "dt_total_local" => {
            let n = t.n();
            match ltt(&mut t) {
                Ok(l) => res(DateTime::from_total_nanoseconds_and_local(n, l), show_dt),
                Err(e) => format!("err ltt:{}", e),
            }
        }
        "ltt" => res(ltt(&mut t), show_ltt),
        "ascii" => {
            let b = unhex(t.s());
            res(tzr::tz_ascii_new_roundtrip(&b), |x| format!("{} {}", hex(&x.0), hex(&x.1)))
        }
        "ruleday" => match day(&mut t) {
            Ok(d) => format!("ok {}", tzr::rule_day_unix_time(&d, t.n(), t.n())),
            Err(e) => format!("err {}", e),
        },
        "alt_new" => res(alt(&mut t), |_| String::new()),
        "alt_find" => match alt(&mut t) {
            Ok(a) => {
                let r = TransitionRule::Alternate(a);
                let types = [*a.std(), *a.dst()];
                let rr = Some(r);
                let z = TimeZoneRef::new(&[], &types, &[], &rr).unwrap();
                res(z.find_local_time_type(t.n()), |l| show_ltt(l))
            }
            Err(e) => format!("err new:{}", e),
        },
        "zone_new" => match zone(&mut t) {
            Ok(z) => {
                let a = TimeZoneRef::new(&z.tr, &z.ty, &z.ls, &z.rule).map(|_| ());
                let b = TimeZone::new(z.tr.clone(), z.ty.clone(), z.ls.clone(), z.rule).map(|_| ());
                format!("{} | {}", res(a, |_| String::new()), res(b, |_| String::new()))
            }
            Err(e) => format!("err parse:{}", e),
        },
        "lookup" => match zone(&mut t) {
            Ok(z) => match TimeZoneRef::new(&z.tr, &z.ty, &z.ls, &z.rule) {
                Ok(r) => res(r.find_local_time_type(t.n()), |l| show_ltt(l)),
                Err(e) => format!("err zone:{:?}", e),
            },
            Err(e) => format!("err parse:{}", e),
        },
        "localtime" => match zone(&mut t) {
            Ok(z) => match TimeZoneRef::new(&z.tr, &z.ty, &z.ls, &z.rule) {
                Ok(r) => res(DateTime::from_timespec(t.n(), t.n(), r), show_dt),
                Err(e) => format!("err zone:{:?}", e),
            },
            Err(e) => format!("err parse:{}", e),
        },
        "localtime_total" => match zone(&mut t) {
            Ok(z) => match TimeZoneRef::new(&z.tr, &z.ty, &z.ls, &z.rule) {
                Ok(r) => res(DateTime::from_total_nanoseconds(t.n(), r), |d| format!("{} total={}", show_dt(d), d.total_nanoseconds())),
                Err(e) => format!("err zone:{:?}", e),
            },
            Err(e) => format!("err parse:{}", e),
        },
        "u2l" | "l2u" => {
            let which = t.v[0];
            match zone(&mut t) {
                Ok(z) => match TimeZoneRef::new(&z.tr, &z.ty, &z.ls, &z.rule) {
                    Ok(r) => res(if which == "u2l" { tzr::u2l(&r, t.n()) } else { tzr::l2u(&r, t.n()) }, |x| x.to_string()),
                    Err(e) => format!("err zone:{:?}", e),
                },
                Err(e) => format!("err parse:{}", e),
            }
        }
        "find" => match zone(&mut t) {
            Ok(z) => match TimeZoneRef::new(&z.tr, &z.ty, &z.ls, &z.rule) {
                Ok(r) => {
                    let (y, mo, d, h, mi, s, ns, blen): (i32, u8, u8, u8, u8, u8, u32, usize) = (t.n(), t.n(), t.n(), t.n(), t.n(), t.n(), t.n(), t.n());
                    let mut buf = vec![None; blen];
                    let a = DateTime::find(y, mo, d, h, mi, s, ns, r);
                    let b = DateTime::find_n(&mut buf, y, mo, d, h, mi, s, ns, r);
                    let show = |k: &FoundDateTimeKind| match k {
                        FoundDateTimeKind::Normal(d) => format!("N {}", show_dt(d)),
                        FoundDateTimeKind::Skipped { before_transition, after_transition } => format!("S {} / {}", show_dt(before_transition), show_dt(after_transition)),
                    };
                    let sa = res(a, |l| {
                        let u = l.unique().map(|d| show_dt(&d));
                        let e = l.earliest().map(|d| show_dt(&d));
                        let la = l.latest().map(|d| show_dt(&d));
                        format!("{} ; u={:?} e={:?} l={:?}", l.clone().into_inner().iter().map(show).collect::<Vec<_>>().join(" ; "), u, e, la)
                    });
                    let sb = res(b, |l| {
                        format!(
                            "count={} exh={} {} ; u={:?} e={:?} l={:?}",
                            l.count(),
                            l.is_exhaustive(),
                            l.data().iter().flatten().map(show).collect::<Vec<_>>().join(" ; "),
                            l.unique().map(|d| show_dt(&d)),
                            l.earliest().map(|d| show_dt(&d)),
                            l.latest().map(|d| show_dt(&d))
                        )
                    });
                    format!("{} || {}", sa, sb)
                }
                Err(e) => format!("err zone:{:?}", e),
            },
            Err(e) => format!("err parse:{}", e),
        },
        "c17" => match zone(&mut t) {
            // both instantiations of the search on the same input; the buffer is pre-filled with stale sentinel entries
            Ok(z) => match TimeZoneRef::new(&z.tr, &z.ty, &z.ls, &z.rule) {
                Ok(r) => {
                    let (y, mo, d, h, mi, s, ns, blen): (i32, u8, u8, u8, u8, u8, u32, usize) = (t.n(), t.n(), t.n(), t.n(), t.n(), t.n(), t.n(), t.n());
                    let sentinel = Some(FoundDateTimeKind::Normal(DateTime::from_timespec_and_local(424242, 7, LocalTimeType::utc()).unwrap()));
                    let mut buf = vec![sentinel; blen];
                    let a = DateTime::find(y, mo, d, h, mi, s, ns, r);
                    let b = DateTime::find_n(&mut buf, y, mo, d, h, mi, s, ns, r);
                    match (a, b) {
                        (Ok(a), Ok(b)) => {
                            let v = a.clone().into_inner();
                            let k = v.len();
                            let w = k.min(blen);
                            let mut diff = vec![];
                            if b.count() != k {
                                diff.push(format!("count {} != {}", b.count(), k));
                            }
                            if b.data().len() != w {
                                diff.push(format!("data len {} != {}", b.data().len(), w));
                            }
                            if b.is_exhaustive() != (blen >= k) {
                                diff.push(format!("is_exhaustive {} with n={} k={}", b.is_exhaustive(), blen, k));
                            }
                            for i in 0..w.min(b.data().len()) {
                                if b.data()[i] != Some(v[i]) {
                                    diff.push(format!("entry {} differs", i));
                                }
                            }
                            let inst = |d: Option<DateTime>| d.map(|d| (d.unix_time(), d.local_time_type().ut_offset()));
                            if blen >= k {
                                if inst(b.unique()) != inst(a.unique()) {
                                    diff.push(format!("unique {:?} != {:?}", inst(b.unique()), inst(a.unique())));
                                }
                                if inst(b.earliest()) != inst(a.earliest()) {
                                    diff.push(format!("earliest {:?} != {:?}", inst(b.earliest()), inst(a.earliest())));
                                }
                                if inst(b.latest()) != inst(a.latest()) {
                                    diff.push(format!("latest {:?} != {:?}", inst(b.latest()), inst(a.latest())));
                                }
                            }
                            drop(b);
                            for i in w..blen {
                                if buf[i] != sentinel {
                                    diff.push(format!("slot {} beyond the reported ones was written", i));
                                }
                            }
                            if diff.is_empty() {
                                format!("ok agree k={}", k)
                            } else {
                                format!("DIFF {}", diff.join("; ").replace(' ', "_"))
                            }
                        }
                        (Err(x), Err(y)) => {
                            if std::mem::discriminant(&x) == std::mem::discriminant(&y) {
                                "ok agree err".into()
                            } else {
                                format!("DIFF errors_{:?}_vs_{:?}", x, y).replace(' ', "")
                            }
                        }
                        (a, b) => format!("DIFF one_fails:{}_{}", a.is_ok(), b.is_ok()),
                    }
                }
                Err(e) => format!("err zone:{:?}", e),
            },
            Err(e) => format!("err parse:{}", e),
        },
        "resolve" => {
            // resolve <tz hex> <resp digits: 0 valid file, 1 malformed, 2 unreadable, per read> <dir hex>*   -> class + paths read
            let tzs = String::from_utf8(unhex(t.s())).unwrap();
            let resp: Vec<u8> = t.s().bytes().map(|b| b - b'0').collect();
            let mut dirs: Vec<String> = vec![];
            loop {
                let d = t.s();
                if d.is_empty() {
                    break;
                }
                dirs.push(String::from_utf8(unhex(d)).unwrap());
            }
            let dref: Vec<&str> = dirs.iter().map(|s| s.as_str()).collect();
            VFS_RESP.with(|r| *r.borrow_mut() = resp);
            VFS_LOG.with(|l| l.borrow_mut().clear());
            let st = TimeZoneSettings::new(&dref, vfs_read);
            let r = st.parse_posix_tz(&tzs);
            let class = match &r {
                Ok(_) => "Ok".to_string(),
                Err(tz::Error::Io(_)) => "Io".to_string(),
                Err(tz::Error::Tz(tz::TzError::TzFile(_))) => "TzFile".to_string(),
                Err(tz::Error::Tz(tz::TzError::TzString(_))) => "TzString".to_string(),
                Err(e) => format!("Other:{:?}", e).replace(' ', ""),
            };
            let log = VFS_LOG.with(|l| l.borrow().iter().map(|p| hex(p.as_bytes())).collect::<Vec<_>>().join(","));
            format!("ok {} [{}]", class, log)
        }
        "tzif" => res(TimeZone::from_tz_data(&unhex(t.s())), |z| format!("{:?}", z).replace(' ', "")),
        "posix" => {
            // posix <hex of TZ string> <ext 0|1>: through a v2 (no extensions) or v3 (extensions) footer of a minimal TZif file
            let s = unhex(t.s());
            let ext: u8 = t.n();
            res(TimeZone::from_tz_data(&minimal_tzif(&s, if ext != 0 { b'3' } else { b'2' })), |z| format!("{:?}", z.as_ref().extra_rule()).replace(' ', ""))
        }
        "tzif_footer" => {
            // tzif_footer <hex of the RAW footer bytes> <ext 0|1>: minimal v2/v3 file followed by exactly these bytes
            let raw = unhex(t.s());
            let ext: u8 = t.n();
            let mut f = minimal_tzif(b"", if ext != 0 { b'3' } else { b'2' });
            f.truncate(f.len() - 2);
            f.extend_from_slice(&raw);
            res(TimeZone::from_tz_data(&f), |z| format!("{:?}", z.as_ref().extra_rule()).replace(' ', ""))
        }
        "posix_settings" => {
            let s = unhex(t.s());
            let st = TimeZoneSettings::new(&[], |_| Err("no file".into()));
            match std::str::from_utf8(&s) {
                Ok(x) => res(st.parse_posix_tz(x), |z| format!("{:?}", z.as_ref().extra_rule()).replace(' ', "")),
                Err(_) => "err notutf8".into(),
            }
        }
        "fmt_utc" => res(UtcDateTime::new(t.n(), t.n(), t.n(), t.n(), t.n(), t.n(), t.n()), |u| format!("{}", u)),
        "fmt_dt" => {
            let (y, mo, d, h, mi, s, ns) = (t.n(), t.n(), t.n(), t.n(), t.n(), t.n(), t.n());
            match ltt(&mut t) {
                Ok(l) => res(DateTime::new(y, mo, d, h, mi, s, ns, l), |d| format!("{}", d)),
                Err(e) => format!("err ltt:{}", e),
            }
        }
        "" => String::new(),
        x => format!("err unknown-command:{}", x),
    }
}

fn main() {
    panic::set_hook(Box::new(|_| {}));
    let stdin = io::stdin();
    let out = io::stdout();
    let mut out = out.lock();
    for line in stdin.lock().lines() {
        let line = line.unwrap();
        let r = panic::catch_unwind(|| run(&line));
        let s = match r {
            Ok(s) => s,
            Err(e) => {
                let msg = e.downcast_ref::<String>().cloned().or_else(|| e.downcast_ref::<&str>().map(|s| s.to_string())).unwrap_or_default();
                format!("panic {}", msg.replace('\n', " "))
            }
        };
        writeln!(out, "{}", s).unwrap();
    }
}
