//! Overlay-only (scratch copy) re-exports of private rule kernels for native replay / translator validation.
#![allow(missing_docs, dead_code)]
use super::*;

pub fn transition_date_(d: &RuleDay, year: i32) -> (usize, i64) {
    d.transition_date(year)
}
pub fn alt_find(a: &AlternateTime, t: i64) -> Result<LocalTimeType, TzError> {
    a.find_local_time_type(t).map(|x| *x)
}
