//! Overlay-only (scratch copy) re-exports of private timezone kernels for native replay / translator validation.
#![allow(missing_docs, dead_code)]
use super::*;

pub fn tz_ascii_new_roundtrip(input: &[u8]) -> Result<([u8; 8], alloc::vec::Vec<u8>), LocalTimeTypeError> {
    let s = TzAsciiStr::new(input)?;
    Ok((s.bytes, s.as_bytes().to_vec()))
}
pub fn u2l(tz: &TimeZoneRef<'_>, t: i64) -> Result<i64, TzError> {
    tz.unix_time_to_unix_leap_time(t)
}
pub fn l2u(tz: &TimeZoneRef<'_>, t: i64) -> Result<i64, TzError> {
    tz.unix_leap_time_to_unix_time(t)
}
pub fn rule_day_unix_time(d: &RuleDay, year: i32, day_time_in_utc: i64) -> i64 {
    d.unix_time(year, day_time_in_utc)
}
