//! Overlay-only (scratch copy) re-exports of private datetime kernels for native replay / translator validation.
#![allow(missing_docs, dead_code)]
use super::*;

pub fn days_since_unix_epoch_(y: i32, m: usize, d: i64) -> i64 {
    days_since_unix_epoch(y, m, d)
}
pub fn unix_time_(y: i32, m: u8, d: u8, h: u8, mi: u8, s: u8) -> i64 {
    unix_time(y, m, d, h, mi, s)
}
pub fn is_leap_year_(y: i32) -> bool {
    is_leap_year(y)
}
pub fn week_day_(y: i32, m: usize, d: i64) -> u8 {
    week_day(y, m, d)
}
pub fn year_day_(y: i32, m: usize, d: i64) -> u16 {
    year_day(y, m, d)
}
pub fn total_nanoseconds_to_timespec_(n: i128) -> Result<(i64, u32), TzError> {
    total_nanoseconds_to_timespec(n)
}
pub fn nanoseconds_since_unix_epoch_(s: i64, ns: u32) -> i128 {
    nanoseconds_since_unix_epoch(s, ns)
}
pub fn check_date_time_inputs_(y: i32, m: u8, d: u8, h: u8, mi: u8, s: u8, ns: u32) -> Result<(), DateTimeError> {
    check_date_time_inputs(y, m, d, h, mi, s, ns)
}
