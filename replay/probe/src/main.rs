//! Feature-configuration probe (C19 replays): public, allocation-free API only, so that it links against tz-rs built with
//! no features, with `alloc`, or with `std`. One command per stdin line, one answer per line.
use std::io::BufRead;
use tz::UtcDateTime;

fn show(u: &UtcDateTime) -> String {
    format!("{} {} {} {} {} {} {} {} wd={} yd={}", u.year(), u.month(), u.month_day(), u.hour(), u.minute(), u.second(), u.nanoseconds(), u.unix_time(), u.week_day(), u.year_day())
}

fn main() {
    for line in std::io::stdin().lock().lines() {
        let line = line.unwrap();
        let v: Vec<&str> = line.split_whitespace().collect();
        let out = std::panic::catch_unwind(|| match v.first().copied() {
            Some("gmtime") => match UtcDateTime::from_timespec(v[1].parse().unwrap(), v[2].parse().unwrap()) {
                Ok(u) => format!("ok {}", show(&u)),
                Err(e) => format!("err {:?}", e),
            },
            Some("utc_total") => match UtcDateTime::from_total_nanoseconds(v[1].parse().unwrap()) {
                Ok(u) => format!("ok {} total={}", show(&u), u.total_nanoseconds()),
                Err(e) => format!("err {:?}", e),
            },
            Some("utc_new") => match UtcDateTime::new(v[1].parse().unwrap(), v[2].parse().unwrap(), v[3].parse().unwrap(), v[4].parse().unwrap(), v[5].parse().unwrap(), v[6].parse().unwrap(), v[7].parse().unwrap()) {
                Ok(u) => format!("ok {}", show(&u)),
                Err(e) => format!("err {:?}", e),
            },
            _ => String::from("err bad command"),
        });
        println!("{}", out.unwrap_or_else(|_| String::from("panic")));
    }
}
